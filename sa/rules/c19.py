"""C19 - CLI exit status, diagnostics and per-instance processing (claimed)."""
import ast

from ..prog import norm, walk_body, AnalysisError, Func
from ..cfg import cfg_of, reaching_defs, node_exprs, walk_expr, handler_names
from ..calls import calls_of
from ..common import calls_at, find_method, const_of
from ..report import site

# builtin exception hierarchy (child -> parent) as far as the CLI's loaders need it
PARENT = {
    "JSONDecodeError": "ValueError", "UnicodeDecodeError": "UnicodeError", "UnicodeError": "ValueError",
    "ValueError": "Exception", "FileNotFoundError": "OSError", "IOError": "OSError", "OSError": "Exception",
    "Exception": "BaseException", "_CannotLoadFile": "Exception", "SchemaError": "Exception",
}


def covers(handler_name, exc):
    cur = exc
    while cur is not None:
        if cur == handler_name:
            return True
        cur = PARENT.get(cur)
    return False


def nonzero_const(e):
    return isinstance(e, ast.Constant) and not isinstance(e.value, bool) and isinstance(e.value, int) and e.value != 0 or (
        isinstance(e, ast.Constant) and e.value is True)


def run_func(prog):
    return prog.func("cli.run")


def _calls_named(calls, f, cfg, pred):
    out = []
    for n in cfg.live:
        for (call, tg) in calls_at(calls, f, n):
            if pred(call, tg):
                out.append((n, call))
    return out


class InstanceLoop:
    """Where the per-instance loop lives: in run() itself or in a helper that run() calls once."""

    def __init__(self, prog):
        calls = calls_of(prog)
        run = run_func(prog)
        vi = prog.func("cli._validate_instance")
        self.run = run
        self.func = None
        for f in [run] + [x for x in prog.funcs.values() if x.mod.name == "cli" and x is not run and x is not vi]:
            cfg = cfg_of(f)
            for n in cfg.live:
                if n.loops and any(t.kind == "func" and t.func is vi for (_c, tg) in calls_at(calls, f, n) for t in tg):
                    self.func = f
                    self.loop = n.loops[0]
                    self.vnode = n
                    self.vcall = [c for (c, tg) in calls_at(calls, f, n) if any(t.kind == "func" and t.func is vi for t in tg)][0]
        if self.func is None:
            raise AnalysisError("cli: no loop that calls _validate_instance found")
        self.binding = {}
        if self.func is run:
            self.gate = self.loop
            self.via = None
        else:
            rcfg = cfg_of(run)
            hits = [(n, c) for n in rcfg.live for (c, tg) in calls_at(calls, run, n) if any(t.kind == "func" and t.func is self.func for t in tg)]
            if len(hits) != 1:
                raise AnalysisError("cli.run calls the instance-loop helper %d times" % len(hits))
            self.gate, self.via = hits[0]
            ps = self.func.params
            for i, a in enumerate(self.via.args):
                if i < len(ps):
                    self.binding[ps[i]] = a
            for k in self.via.keywords:
                if k.arg:
                    self.binding[k.arg] = k.value

    def in_run(self, e):
        """Translate an expression of the loop function (a parameter name) into the expression run() passed for it."""
        if self.func is self.run:
            return e
        if isinstance(e, ast.Name) and e.id in self.binding:
            return self.binding[e.id]
        return None


def rule_schema_gate(ctx, rid="R19.1"):
    prog = ctx.prog
    calls = calls_of(prog)
    f = run_func(prog)
    cfg = cfg_of(f)
    r = ctx.rule(rid, "schema load and check_schema failures return non-zero before any instance is looked at", floor=4)
    load = find_method(prog, "cli._Outputter", "load")
    loads = _calls_named(calls, f, cfg, lambda c, tg: any(t.kind == "func" and t.func is load for t in tg))
    checks = _calls_named(calls, f, cfg, lambda c, tg: isinstance(c.func, ast.Attribute) and c.func.attr == "check_schema")
    il = InstanceLoop(prog)
    loop = il.gate
    dom = cfg.dominators()
    sload = [(n, c) for (n, c) in loads if loop not in n.loops and norm(c.args[0] if c.args else None).find("schema") >= 0]
    if len(sload) != 1:
        r.fail("%s|schema-load:%d" % (f.qual, len(sload)), site(f), "expected one schema load before the loop, found %d" % len(sload))
        return r
    if len(checks) != 1:
        r.fail("%s|check_schema-calls:%d" % (f.qual, len(checks)), site(f), "expected one check_schema call, found %d" % len(checks))
        return r
    ln, lc = sload[0]
    cn, cc = checks[0]
    for what, (n, c), exc in (("schema load", (ln, lc), "_CannotLoadFile"), ("check_schema", (cn, cc), "SchemaError")):
        if n.id in dom[loop.id]:
            r.ok(site(f, c), "%s dominates the instance loop" % what)
        else:
            r.fail("%s|%s-not-dominating" % (f.qual, what), site(f, c), "the instance loop can be reached without %s" % what)
        trys = [t for (t, wh) in n.trys if wh == "body"]
        hs = [h for t in trys for h in t.handlers if handler_names(h) and any(covers(x, exc) for x in handler_names(h))]
        if not hs:
            r.fail("%s|%s-unhandled" % (f.qual, what), site(f, c), "%s failure (%s) is not handled in run()" % (what, exc))
            continue
        h = hs[0]
        # handler body: returns a non-zero constant on every path; for SchemaError exactly one validation_error(error=<caught>)
        hn = [x for x in cfg.live if x.kind == "except" and x.ast is h][0]
        seen, todo, rets, bad = set(), [hn], [], []
        ve = 0
        while todo:
            x = todo.pop()
            if x.id in seen:
                continue
            seen.add(x.id)
            if x.kind == "return":
                rets.append(x)
                continue
            if x.kind == "exit" or x is loop:
                bad.append(x)
                continue
            for (call, tg) in calls_at(calls, f, x):
                if isinstance(call.func, ast.Attribute) and call.func.attr == "validation_error":
                    ve += 1
                    ea = next((k.value for k in call.keywords if k.arg == "error"), None)
                    if not (isinstance(ea, ast.Name) and ea.id == h.name):
                        r.fail("%s|schema-error-report|%s" % (f.qual, norm(ea)), site(f, call), "the reported error is not the caught SchemaError")
            todo.extend(y for (l, y) in x.succ if l != "exc")
        if bad or not rets or not all(nonzero_const(x.ast.value) for x in rets):
            r.fail("%s|%s-handler-exit" % (f.qual, what), site(f, h),
                   "after a %s failure run() does not return a non-zero constant on every path (returns: %s)" % (what, [norm(x.ast.value) for x in rets]))
        else:
            r.ok(site(f, h), "%s failure -> return %s" % (what, ", ".join(norm(x.ast.value) for x in rets)))
        if exc == "SchemaError":
            if ve == 1:
                r.ok(site(f, h), "exactly one validation_error for the schema error")
            else:
                r.fail("%s|schema-error-reports:%d" % (f.qual, ve), site(f, h), "schema error reported %d times" % ve)
    # schema load precedes check_schema and the validator class choice uses the loaded schema
    if ln.id not in dom[cn.id]:
        r.fail("%s|check-before-load" % f.qual, site(f, cc), "check_schema can run before the schema is loaded")
    a = cc.args[0] if cc.args else None
    sv = ln.ast.targets[0].id if ln.kind == "stmt" and isinstance(ln.ast, ast.Assign) and isinstance(ln.ast.targets[0], ast.Name) else None
    if isinstance(a, ast.Name) and a.id == sv:
        r.ok(site(f, cc), "check_schema(<loaded schema>)")
    else:
        r.fail("%s|check-arg|%s" % (f.qual, norm(a)), site(f, cc), "check_schema is not applied to the loaded schema")
    return r


def rule_every_instance(ctx, rid="R19.2"):
    prog = ctx.prog
    calls = calls_of(prog)
    il = InstanceLoop(prog)
    f = il.func
    cfg = cfg_of(f)
    rd = reaching_defs(cfg)
    r = ctx.rule(rid, "every listed instance is processed whatever happened before", floor=3)
    loop = il.loop
    body = [n for n in cfg.live if loop in n.loops]
    exits = [n for n in body if n.kind in ("break", "return", "raise")]
    for n in exits:
        r.fail("%s|loop-exit|%s" % (f.qual, n.text), site(f, n.ast), "the instance loop can be left early by `%s`" % n.text)
    if not exits:
        r.ok(site(f, loop.ast), "no break/return/raise in the instance loop (%d nodes)" % len(body))
    lds = [(n, c) for n in body for (c, tg) in calls_at(calls, f, n)
           if isinstance(c.func, ast.Name) and c.func.id == "load" or (isinstance(c.func, ast.Attribute) and c.func.attr == "load")]
    if not lds:
        r.fail("%s|no-load-in-loop" % f.qual, site(f, loop.ast), "no load call inside the instance loop")
    for n, c in lds:
        trys = [t for (t, wh) in n.trys if wh == "body"]
        hs = [h for t in trys for h in t.handlers if handler_names(h) and any(covers(x, "_CannotLoadFile") for x in handler_names(h))]
        if hs:
            r.ok(site(f, c), "load failure handled inside the loop (%s)" % ", ".join("except " + norm(h.type) for h in hs))
        else:
            r.fail("%s|load-unhandled" % f.qual, site(f, c), "a load failure inside the loop is not handled there: remaining instances are skipped")

    def full_list(v):
        return (isinstance(v, ast.Subscript) and const_of(v.slice) == "instances" and isinstance(v.value, ast.Name)) or \
               (isinstance(v, ast.List) and len(v.elts) == 1)

    def values_in_run(name_expr):
        """Expressions that may flow into the loop's iterable, looked up in run()."""
        run = il.run
        rcfg = cfg_of(run)
        rrd = reaching_defs(rcfg)
        at = il.gate if il.func is not run else loop
        if not isinstance(name_expr, ast.Name):
            return [name_expr]
        outs = []
        for d in rrd[at.id].get(name_expr.id, ()):
            dn = rcfg.nodes[d]
            a = dn.ast
            if isinstance(a, ast.Assign):
                tg, val = a.targets[0], a.value
                if isinstance(tg, ast.Tuple) and isinstance(val, ast.Tuple) and len(tg.elts) == len(val.elts):
                    idx = [i for i, e in enumerate(tg.elts) if isinstance(e, ast.Name) and e.id == name_expr.id]
                    outs.append(val.elts[idx[0]] if idx else None)
                else:
                    outs.append(val)
            else:
                outs.append(None)
        return outs
    it = il.in_run(loop.ast.iter) if il.func is not il.run else loop.ast.iter
    vals = values_in_run(it) if it is not None else [None]
    if vals and all(v is not None and full_list(v) for v in vals):
        r.ok(site(f, loop.ast), "iterates the full instance list (or the single stdin entry)")
    else:
        r.fail("%s|iterable|%s" % (f.qual, ";".join(norm(v)[:30] for v in vals)), site(f, loop.ast),
               "the loop does not iterate all of arguments[\"instances\"]: %s" % [norm(v) for v in vals])
    return r


def rule_monotone_status(ctx, rid="R19.3"):
    prog = ctx.prog
    calls = calls_of(prog)
    il = InstanceLoop(prog)
    f = il.func
    cfg = cfg_of(f)
    r = ctx.rule(rid, "the exit status accumulates monotonically: once non-zero it stays non-zero", floor=4)
    rets = [n for n in cfg.live if n.kind == "return"]
    accs = {n.ast.value.id for n in rets if isinstance(n.ast.value, ast.Name)}
    if len(accs) != 1:
        r.fail("%s|accumulator" % f.qual, site(f), "cannot identify a single exit-status accumulator among returns %s" % [norm(n.ast.value) for n in rets])
        return r
    acc = accs.pop()
    for n in rets:
        v = n.ast.value
        if isinstance(v, ast.Name) and v.id == acc:
            r.ok(site(f, n.ast), "returns the accumulator")
        elif nonzero_const(v):
            r.ok(site(f, n.ast), "returns non-zero constant %s" % norm(v))
        else:
            r.fail("%s|return|%s" % (f.qual, norm(v)), site(f, n.ast), "%s() returns %s, neither the accumulator nor a non-zero constant" % (f.name, norm(v)))
    if il.func is not il.run:
        # run() must hand the helper's status on unchanged
        rcfg = cfg_of(il.run)
        rrd = reaching_defs(rcfg)
        for n in [x for x in rcfg.live if x.kind == "return"]:
            v = n.ast.value
            ok = nonzero_const(v) or v is il.via
            if isinstance(v, ast.Name):
                defs = [rcfg.nodes[d] for d in rrd[n.id].get(v.id, ())]
                ok = bool(defs) and all(isinstance(d.ast, ast.Assign) and d.ast.value is il.via for d in defs)
            if ok:
                r.ok(site(il.run, n.ast), "run() returns %s" % norm(v)[:40])
            else:
                r.fail("%s|return|%s" % (il.run.qual, norm(v)[:40]), site(il.run, n.ast), "run() returns %s, neither the loop's status nor a non-zero constant" % norm(v)[:50])
    loop = il.loop
    from ..cfg import node_defs
    defs = [n for n in cfg.live if acc in node_defs(n)]
    init = [n for n in defs if loop not in n.loops]
    for n in init:
        v = n.ast.value if isinstance(n.ast, ast.Assign) else None
        if isinstance(v, ast.Constant) and v.value == 0 and not isinstance(v.value, bool):
            r.ok(site(f, n.ast), "initialised to 0 before the loop")
        else:
            r.fail("%s|init|%s" % (f.qual, norm(n.ast)), site(f, n.ast), "accumulator initialised with %s" % norm(v))
    if not init:
        r.fail("%s|no-init" % f.qual, site(f), "accumulator has no initial definition before the loop")
    for n in defs:
        if loop not in n.loops:
            continue
        a = n.ast
        ok = False
        if isinstance(a, ast.AugAssign) and isinstance(a.op, ast.BitOr):
            ok = True
        elif isinstance(a, ast.Assign):
            v = a.value
            if nonzero_const(v):
                ok = True
            elif isinstance(v, ast.BinOp) and isinstance(v.op, ast.BitOr) and any(isinstance(x, ast.Name) and x.id == acc for x in (v.left, v.right)):
                ok = True
            elif isinstance(v, ast.BoolOp) and isinstance(v.op, ast.Or) and isinstance(v.values[0], ast.Name) and v.values[0].id == acc:
                ok = True
            elif isinstance(v, ast.Call) and isinstance(v.func, ast.Name) and v.func.id == "max" and any(
                    isinstance(x, ast.Name) and x.id == acc for x in v.args):
                ok = True
        if ok:
            r.ok(site(f, a), "in-loop update preserves non-zero: %s" % norm(a)[:50])
        else:
            r.fail("%s|update|%s" % (f.qual, norm(a)[:60]), site(f, a),
                   "in-loop assignment can reset a non-zero status: %s (status would be decided by the last instance only)" % norm(a)[:80])
    return r


def _scenario(cfg, calls, f, loop, n_errors):
    """Abstractly run _validate_instance when iter_errors yields n_errors (0 or 2) errors; booleans of plain locals are tracked.
    Returns dict(reports=int, successes=int, ret=True/False/None, unknown=bool)."""
    env = {}
    out = {"reports": 0, "successes": 0, "ret": None, "unknown": False, "report_args": []}
    n = cfg.entry
    left = n_errors
    steps = 0

    def ev(e):
        if isinstance(e, ast.Constant):
            return bool(e.value)
        if isinstance(e, ast.Name):
            return env.get(e.id)
        if isinstance(e, ast.UnaryOp) and isinstance(e.op, ast.Not):
            v = ev(e.operand)
            return None if v is None else not v
        return None
    while steps < 300:
        steps += 1
        if n.kind == "exit":
            if out["ret"] is None:
                out["ret"] = False      # falls off the end: None is falsy
            return out
        for (c, tg) in calls_at(calls, f, n):
            if isinstance(c.func, ast.Attribute) and c.func.attr == "validation_error":
                out["reports"] += 1
                out["report_args"].append(c)
            if isinstance(c.func, ast.Attribute) and c.func.attr == "validation_success":
                out["successes"] += 1
        if n.kind == "for":
            if n is loop:
                if left > 0:
                    left -= 1
                    nxt = [t for (l, t) in n.succ if l == "iter"]
                else:
                    nxt = [t for (l, t) in n.succ if l == "done"]
            else:
                out["unknown"] = True
                return out
        elif n.kind == "test":
            v = ev(n.ast)
            if v is None:
                out["unknown"] = True
                return out
            nxt = [t for (l, t) in n.succ if l == ("true" if v else "false")]
        elif n.kind == "return":
            v = n.ast.value
            out["ret"] = ev(v) if v is not None else False
            if out["ret"] is None:
                out["unknown"] = True
            return out
        elif n.kind == "stmt" and isinstance(n.ast, ast.Assign) and isinstance(n.ast.targets[0], ast.Name):
            env[n.ast.targets[0].id] = ev(n.ast.value)
            nxt = [t for (l, t) in n.succ if l == "next"]
        elif n.kind in ("break",):
            nxt = [t for (l, t) in n.succ]
        else:
            nxt = [t for (l, t) in n.succ if l not in ("exc", "close")]
        if not nxt:
            return out
        n = nxt[0]
    out["unknown"] = True
    return out


def rule_validate_instance(ctx, rid="R19.4"):
    prog = ctx.prog
    calls = calls_of(prog)
    f = prog.func("cli._validate_instance")
    cfg = cfg_of(f)
    r = ctx.rule(rid, "one report per error, success only when there was none, the returned flag says which", floor=4)
    loops = [n for n in cfg.live if n.kind == "for"]
    it_ok = [n for n in loops if isinstance(n.ast.iter, ast.Call) and isinstance(n.ast.iter.func, ast.Attribute)
             and n.ast.iter.func.attr == "iter_errors"]
    if len(it_ok) != 1:
        r.fail("%s|iter_errors-loop" % f.qual, site(f), "expected one loop over validator.iter_errors(instance)")
        return r
    loop = it_ok[0]
    ic = loop.ast.iter
    ps = f.params
    if [norm(a) for a in ic.args] == [ps[1]] and norm(ic.func.value) == ps[2]:
        r.ok(site(f, ic), "validator.iter_errors(instance) with the function's own parameters")
    else:
        r.fail("%s|iter_errors-args|%s" % (f.qual, norm(ic)), site(f, ic), "errors are not those of the given validator on the given instance: %s" % norm(ic))
    lv = loop.ast.target.id if isinstance(loop.ast.target, ast.Name) else None
    # abstract runs: no error / two errors
    s0 = _scenario(cfg, calls, f, loop, 0)
    s2 = _scenario(cfg, calls, f, loop, 2)
    if s0["unknown"] or s2["unknown"]:
        r.fail("%s|undetermined" % f.qual, site(f), "cannot follow the control flow of _validate_instance (unrecognised condition)")
        return r
    if s0["reports"] == 0 and s0["successes"] == 1 and s0["ret"] is False:
        r.ok(site(f), "no error: nothing reported, one validation_success, returns a falsy status")
    else:
        r.fail("%s|no-error-scenario" % f.qual, site(f),
               "with no error: %d reports, %d success messages, returns %s (expected 0, 1, falsy)" % (s0["reports"], s0["successes"], s0["ret"]))
    if s2["reports"] == 2 and s2["successes"] == 0 and s2["ret"] is True:
        r.ok(site(f), "two errors: two reports, no success message, returns a truthy status")
    else:
        r.fail("%s|errors-scenario" % f.qual, site(f),
               "with two errors: %d reports, %d success messages, returns %s (expected 2, 0, truthy)" % (s2["reports"], s2["successes"], s2["ret"]))
    for c in s2["report_args"][:1]:
        ea = next((k.value for k in c.keywords if k.arg == "error"), c.args[1] if len(c.args) > 1 else None)
        pa = next((k.value for k in c.keywords if k.arg == "instance_path"), c.args[0] if c.args else None)
        if isinstance(ea, ast.Name) and ea.id == lv and isinstance(pa, ast.Name) and pa.id == ps[0]:
            r.ok(site(f, c), "validation_error(instance_path=<own path>, error=<loop variable>)")
        else:
            r.fail("%s|report-args|%s" % (f.qual, norm(c)[:60]), site(f, c), "the reported object is not the loop's error under the function's own path")
    return r


def rule_streams(ctx, rid="R19.5"):
    prog = ctx.prog
    r = ctx.rule(rid, "errors and diagnostics go to stderr, success to stdout, each exactly the formatter's text once; plain success is empty", floor=6)
    outc = prog.cls("cli._Outputter")
    want = {"validation_error": "_stderr", "parsing_error": "_stderr", "filenotfound_error": "_stderr", "validation_success": "_stdout"}
    for name, stream in want.items():
        m = outc.methods.get(name)
        if m is None:
            r.fail("cli._Outputter|missing|%s" % name, "jsonschema/cli.py _Outputter", "method %s vanished" % name)
            continue
        writes = [n for n in walk_body(m) if isinstance(n, ast.Call) and isinstance(n.func, ast.Attribute) and n.func.attr in ("write", "writelines")]
        others = [n for n in walk_body(m) if isinstance(n, ast.Call) and isinstance(n.func, ast.Name) and n.func.id == "print"]
        ok = len(writes) == 1 and not others
        if ok:
            w = writes[0]
            recv = w.func.value
            arg = w.args[0] if w.args else None
            ok = (isinstance(recv, ast.Attribute) and recv.attr == stream and norm(recv.value) == m.params[0]
                  and isinstance(arg, ast.Call) and isinstance(arg.func, ast.Attribute) and arg.func.attr == name
                  and norm(arg.func.value) == "%s._formatter" % m.params[0])
        if ok:
            r.ok(site(m), "self.%s.write(self._formatter.%s(...)) once" % (stream, name))
        else:
            r.fail("%s|stream" % m.qual, site(m), "%s must write the formatter's %s text exactly once to %s" % (name, name, stream))
    pf = prog.cls("cli._PlainFormatter").methods.get("validation_success")
    rets = [n for n in walk_body(pf) if isinstance(n, ast.Return)] if pf else []
    if pf and len(rets) == 1 and const_of(rets[0].value) == "":
        r.ok(site(pf), "plain success text is the empty string")
    else:
        r.fail("cli._PlainFormatter.validation_success|nonempty", site(pf) if pf else "cli.py", "plain mode must write nothing to stdout on success")
    pp = prog.cls("cli._PrettyFormatter").methods.get("validation_success")
    if pp and any(isinstance(n, ast.Return) and isinstance(n.value, ast.Call) and "_SUCCESS_MSG" in norm(n.value) and pp.params[1] in norm(n.value) for n in walk_body(pp)):
        r.ok(site(pp), "pretty success header formatted with the instance path")
    else:
        r.fail("cli._PrettyFormatter.validation_success|shape", site(pp) if pp else "cli.py", "pretty success header is not the success message formatted with the path")
    return r


def loader_funcs(prog):
    """Decoding/parsing sites of the CLI's loaders (_Outputter.load and the stdin loader nested in run):
    (function, call, exceptions it raises on a file that is not UTF-8 text / not JSON)."""
    calls = calls_of(prog)
    out = []
    for f in prog.funcs.values():
        if f.mod.name != "cli":
            continue
        # names bound to text streams: open(...) without a binary mode, the stdin parameter
        streams = set()
        for n in walk_body(f):
            if isinstance(n, ast.Assign) and isinstance(n.value, ast.Call) and norm(n.value.func) == "open" and isinstance(n.targets[0], ast.Name):
                mode = n.value.args[1] if len(n.value.args) > 1 else next((k.value for k in n.value.keywords if k.arg == "mode"), None)
                if not (isinstance(mode, ast.Constant) and "b" in str(mode.value)):
                    streams.add(n.targets[0].id)
            if isinstance(n, ast.withitem) and isinstance(n.context_expr, ast.Call) and norm(n.context_expr.func) == "open" and isinstance(n.optional_vars, ast.Name):
                streams.add(n.optional_vars.id)
        streams |= {"stdin"}
        for n in walk_body(f):
            if isinstance(n, ast.Call):
                for t in calls.callee(f, n):
                    if t.kind == "ext" and t.name == "json.load":
                        out.append((f, n, ["JSONDecodeError", "UnicodeDecodeError"]))
                    elif t.kind == "ext" and t.name == "json.loads":
                        out.append((f, n, ["JSONDecodeError"]))
                if isinstance(n.func, ast.Attribute) and n.func.attr in ("read", "readlines", "readline") and isinstance(n.func.value, ast.Name) \
                        and n.func.value.id in streams:
                    out.append((f, n, ["UnicodeDecodeError"]))
    return out


def rule_parse_failures(ctx, rid="R19.7"):
    prog = ctx.prog
    calls = calls_of(prog)
    r = ctx.rule(rid, "every way json.load can fail on a text stream becomes one parsing diagnostic and _CannotLoadFile", floor=2)
    for f, call, raises in loader_funcs(prog):
        cfg = cfg_of(f)
        n = [x for x in cfg.live if any(c is call for (c, _t) in calls_at(calls, f, x))][0]
        if "JSONDecodeError" in raises:
            # the parser must be the JSON parser: an option that widens the accepted language (strict=False lets raw control
            # characters through) or rewrites values (hooks) makes a non-JSON file pass without its diagnostic
            opts = [k for k in call.keywords if not (k.arg == "strict" and isinstance(k.value, ast.Constant) and k.value.value is True)]
            extra = call.args[1:]
            if opts or extra:
                what = ",".join(sorted((k.arg or "**") for k in opts)) or "positional"
                r.fail("%s|parser-option|%s" % (f.qual, what), site(f, call),
                       "`%s` changes what the parser accepts or returns (%s): a file that is not JSON no longer yields its parsing "
                       "diagnostic, or the document validated is not the one in the file" % (norm(call)[:50], what))
            else:
                r.ok(site(f, call), "plain JSON parser, no options")
        trys = [t for (t, wh) in n.trys if wh == "body"]
        for exc in raises:
            hs = [h for t in trys for h in t.handlers if handler_names(h) is None or any(covers(x, exc) for x in handler_names(h))]
            if not hs:
                r.fail("%s|uncaught|%s" % (f.qual, exc), site(f, call),
                       "`%s` can raise %s (file/stdin that is not UTF-8 text or not JSON) and no handler here covers it: the run ends with a traceback and the remaining instances are never looked at" % (norm(call)[:40], exc))
                continue
            h = hs[0]
            hn = [x for x in cfg.live if x.kind == "except" and x.ast is h][0]
            # handler: exactly one parsing_error, then raise _CannotLoadFile, on every path
            seen, todo, diag, ends = set(), [hn], 0, []
            while todo:
                x = todo.pop()
                if x.id in seen:
                    continue
                seen.add(x.id)
                for (c, _tg) in calls_at(calls, f, x):
                    if isinstance(c.func, ast.Attribute) and c.func.attr == "parsing_error":
                        diag += 1
                if x.kind == "raise":
                    ends.append(norm(x.ast.exc)[:30] if isinstance(x.ast, ast.Raise) and x.ast.exc is not None else "reraise")
                    continue
                if x.kind in ("return", "exit"):
                    ends.append(x.kind)
                    continue
                todo.extend(y for (l, y) in x.succ if l != "exc")
            if diag == 1 and ends and all(e.startswith("_CannotLoadFile") for e in ends):
                r.ok(site(f, h) + " [%s]" % exc, "one parsing_error, then _CannotLoadFile")
            else:
                r.fail("%s|handler-shape|%s" % (f.qual, exc), site(f, h), "handler for %s emits %d diagnostics and ends with %s" % (exc, diag, ends))
    # ENOENT path of load()
    ld = find_method(prog, "cli._Outputter", "load")
    cfg = cfg_of(ld)
    fn = [(x, c) for x in cfg.live for (c, _t) in calls_at(calls, ld, x) if isinstance(c.func, ast.Attribute) and c.func.attr == "filenotfound_error"]
    if len(fn) == 1:
        x, c = fn[0]
        nxt = [y for (l, y) in x.succ if l == "next"]
        if nxt and nxt[0].kind == "raise" and "_CannotLoadFile" in norm(nxt[0].ast.exc):
            r.ok(site(ld, c), "missing file: one filenotfound_error, then _CannotLoadFile")
        else:
            r.fail("%s|enoent-shape" % ld.qual, site(ld, c), "missing-file diagnostic is not followed by _CannotLoadFile")
    else:
        r.fail("%s|enoent-diag:%d" % (ld.qual, len(fn)), site(ld), "expected one filenotfound_error call in load(), found %d" % len(fn))
    return r


def _options_eval(prog, f):
    """parse_args evaluated by sa/tokeval.py with a stub argparse parser: '' | difference | None (outside the fragment)"""
    import argparse
    from ..tokeval import Ev, Undecided, PyRaise

    class StubParser:
        def __init__(self, ns):
            self.ns, self.errors = ns, []

        def parse_args(self, args=None):
            return argparse.Namespace(**self.ns)

        def error(self, message):
            self.errors.append(message)
            raise PyRaise("SystemExit", message)
    try:
        for output, fmt in (("plain", None), ("plain", "{error.message}"), ("plain", ""), ("pretty", None), ("pretty", "{error.message}"), ("pretty", "")):
            ev = Ev(prog, fuel=5000)
            sp = StubParser({"output": output, "error_format": fmt, "schema": "s.json", "instances": None, "validator": None, "base_uri": None})
            ev.preset("cli", "parser", sp)
            try:
                res = ev.call_func(f, [["s.json"]], {})
            except PyRaise as pr:
                res = pr
            if output == "pretty" and fmt == "":
                continue        # an empty format with pretty output: either reading is defensible; not part of the table
            if output == "pretty" and fmt is not None:
                if not sp.errors:
                    return "--error-format together with --output pretty is not rejected"
                continue
            if isinstance(res, PyRaise) or sp.errors:
                return "--output %s with error format %r is rejected (reject)" % (output, fmt)
            want = fmt if fmt is not None else ("{error.instance}: {error.message}\n" if output == "plain" else None)
            if not isinstance(res, dict) or res.get("error_format") != want or res.get("output") != output:
                return "--output %s with error format %r gives error_format %r (default expected exactly when plain and none given)" % (
                    output, fmt, res.get("error_format") if isinstance(res, dict) else res)
    except Undecided:
        return None
    return ""


ARGV_TABLE = [
    # (argv, expected members of the arguments mapping)
    (["s.json"], {"schema": "s.json", "instances": None, "output": "plain", "base_uri": None, "validator": None}),
    (["-i", "a.json", "s.json"], {"schema": "s.json", "instances": ["a.json"]}),
    (["-i", "a.json", "--instance", "b.json", "-i", "a.json", "s.json"], {"instances": ["a.json", "b.json", "a.json"]}),
    (["-i", "@a.json", "s.json"], {"instances": ["@a.json"], "schema": "s.json"}),
    (["-i", "a.json", "@s.json"], {"instances": ["a.json"], "schema": "@s.json"}),
    (["-i", "+a.json", "-i", "a b.json", "-i", "", "-i", "dir/../a.json", "s.json"], {"instances": ["+a.json", "a b.json", "", "dir/../a.json"]}),
    (["--error-format", "@{error.message}", "s.json"], {"error_format": "@{error.message}", "output": "plain"}),
    (["-F", "{error.message}\n", "-o", "plain", "s.json"], {"error_format": "{error.message}\n"}),
    (["--error-format=", "s.json"], {"error_format": ""}),
    # the template is the caller's: it is not tried out on anything before there is an error to format
    (["--error-format", "{error.path[0]}: {error.message}\n", "s.json"], {"error_format": "{error.path[0]}: {error.message}\n"}),
    (["-F", "{error.instance[key]} {error.validator_value[0]} {error.context[0].message}", "s.json"],
     {"error_format": "{error.instance[key]} {error.validator_value[0]} {error.context[0].message}"}),
    (["-F", "{not_an_error_field}", "s.json"], {"error_format": "{not_an_error_field}"}),
    (["--output", "pretty", "s.json"], {"output": "pretty", "error_format": None}),
    (["--base-uri", "http://x/y/", "s.json"], {"base_uri": "http://x/y/"}),
    (["--base-uri", "@base", "s.json"], {"base_uri": "@base"}),
    # a base URI is used as written: percent-escapes, spaces, non-ASCII and characters outside RFC 3986 are the caller's
    (["--base-uri", "file:///srv/shared%20schemas/", "s.json"], {"base_uri": "file:///srv/shared%20schemas/"}),
    (["--base-uri", "http://h/a b/\u00e9/%25/?q=1&r=[2]#frag", "s.json"], {"base_uri": "http://h/a b/\u00e9/%25/?q=1&r=[2]#frag"}),
    (["--base-uri", "", "s.json"], {"base_uri": ""}),
    (["s.json", "-i", "a.json"], {"schema": "s.json", "instances": ["a.json"]}),
    (["--", "-odd-name.json"], {"schema": "-odd-name.json"}),
]


def _parser_eval(prog, f):
    """The module-level argument parser, built by executing cli.py's own `parser = ...` / `parser.add_argument(...)` statements in
    sa/tokeval.py against the real argparse, then parse_args() on a table of command lines: every value must arrive in the arguments
    mapping as it was written (a word starting with '@', '+', a space, an empty string, `dir/../x`), in order, duplicates kept.
    -> '' | difference | None (outside the fragment)."""
    import argparse
    from ..tokeval import Ev, Undecided, PyRaise, _ModScope
    mod = prog.mod("cli")
    try:
        for argv, want in ARGV_TABLE:
            ev = Ev(prog, fuel=20000)
            ev.ext["argparse"] = argparse
            ev.preset("__init__", "__version__", "0.0")
            # the module's top-level statements, in order: bindings of plain names and expression statements (the parser may be built
            # directly, by add_argument statements, or from a table filled by calls further up); defs, classes and imports are the
            # loader's business
            env = {}
            for st in mod.tree.body:
                if isinstance(st, ast.Assign) and len(st.targets) == 1 and isinstance(st.targets[0], ast.Name):
                    ev.block([st], env, _ModScope(mod))
                    ev.preset("cli", st.targets[0].id, env[st.targets[0].id])
                elif isinstance(st, ast.Expr) and isinstance(st.value, ast.Call):
                    ev.block([st], env, _ModScope(mod))
            p = env.get("parser")
            if not isinstance(p, argparse.ArgumentParser):
                return None
            msgs = []

            def error(message, msgs=msgs):
                msgs.append(message)
                raise PyRaise("SystemExit", message)
            p.error = error
            p.exit = lambda status=0, message=None: error(message or "exit %s" % status)
            ev.preset("cli", "parser", p)
            try:
                got = ev.call_func(f, [list(argv)], {})
            except PyRaise as pr:
                return "the command line %r is refused (%s: %s); every word of it is an ordinary value" % (argv, pr.name, (msgs or [pr.msg])[0])
            except SystemExit:
                return "the command line %r makes the parser exit" % (argv,)
            if not isinstance(got, dict):
                return "parse_args(%r) returns %r, not the arguments mapping" % (argv, got)
            for k, v in want.items():
                if got.get(k) != v:
                    return "the command line %r gives %s=%r; as written it is %r" % (argv, k, got.get(k), v)
    except Undecided:
        return None
    except PyRaise as pr:
        return "building the parser raises %s (%s)" % (pr.name, pr.msg)
    return ""


def rule_argv(ctx, rid="R19.10"):
    prog = ctx.prog
    f = prog.func("cli.parse_args")
    r = ctx.rule(rid, "every value on the command line reaches run() as written (instances in order, duplicates kept; words starting with '@', '+', ' ' are values)", floor=1)
    try:
        sem = _parser_eval(prog, f)
    except RecursionError:
        sem = None
    if sem is None:
        r.ok(site(f), "NOT DECIDED: the parser's construction is outside the evaluated fragment")
        r.note(site(f), "%s not decided" % rid)
    elif sem == "":
        r.ok(site(f), "%d command lines parsed by the module's own parser (built inside the interpreter against argparse): every value arrives as written" % len(ARGV_TABLE))
    else:
        r.fail("%s|argv" % f.qual, site(f), sem)
    return r


def rule_errors_as_produced(ctx, rid="R19.13"):
    """Each instance yields exactly the errors the library reports for it -- also when the library then fails: the errors are written
    as they are produced, not collected first."""
    prog = ctx.prog
    f = prog.func("cli._validate_instance")
    r = ctx.rule(rid, "errors are written to stderr as the validator produces them (those reported before the validator fails part-way are there)", floor=1)
    from .clisem import as_produced_eval
    try:
        sem = as_produced_eval(prog)
    except RecursionError:
        sem = None
    if sem is None:
        r.ok(site(f), "NOT DECIDED: outside the evaluated fragment")
        r.note(site(f), "%s not decided" % rid)
    elif sem == "":
        r.ok(site(f), "a validator that reports two errors and then raises: both are on stderr when the exception leaves run() (plain and pretty)")
    else:
        r.fail("%s|as-produced" % f.qual, site(f), sem)
    return r


def rule_main_exit_status(ctx, rid="R19.11"):
    """`python -m jsonschema` and the console script end with run()'s status: main() hands run()'s return value to sys.exit, and
    __main__.py calls main().  Evaluated by sa/tokeval.py with run() and parse_args() replaced by stand-ins (run answers 7) and a
    recording sys.exit."""
    from ..tokeval import Ev, Undecided, PyRaise, _ModScope
    prog = ctx.prog
    r = ctx.rule(rid, "the process exit status is run()'s return value: through main(), and through `python -m jsonschema`", floor=2)

    def world():
        ev = Ev(prog, fuel=20000)
        seen = {"exit": [], "run": [], "parse": []}

        class _Sys:
            argv = ["jsonschema", "-i", "a.json", "s.json"]
            stdout = stderr = stdin = None

            @staticmethod
            def exit(code=0):
                seen["exit"].append(code)
                raise PyRaise("SystemExit", repr(code))
        ev.ext["sys"] = _Sys
        ev.override_func("cli.run", lambda *a, **k: (seen["run"].append((a, k)), 7)[1])
        ev.override_func("cli.parse_args", lambda *a, **k: (seen["parse"].append((a, k)), {"parsed": True})[1])
        return ev, seen
    main = prog.funcs.get("cli.main")
    mm = prog.mods.get("__main__")
    for label, target in (("cli.main", main), ("__main__", mm)):
        where = site(main) if label == "cli.main" and main is not None else "jsonschema/__main__.py"
        if target is None:
            r.fail("%s|vanished" % label, where, "%s vanished" % label)
            continue
        try:
            ev, seen = world()
            try:
                if label == "cli.main":
                    ev.call_func(main, [], {"args": ["-i", "a.json", "s.json"]})
                else:
                    body = [st for st in mm.tree.body if not isinstance(st, (ast.Import, ast.ImportFrom, ast.FunctionDef, ast.ClassDef))]
                    ev.block(body, {}, _ModScope(mm))
            except PyRaise as pr:
                if pr.name != "SystemExit":
                    r.fail("%s|exit-status|raises" % label, where, "%s raises %s (%s)" % (label, pr.name, pr.msg))
                    continue
        except Undecided as u:
            r.ok(where, "NOT DECIDED: %s" % u)
            r.note(where, "%s not decided for %s" % (rid, label))
            continue
        if len(seen["run"]) != 1:
            r.fail("%s|exit-status|run-calls" % label, where, "%s calls run() %d times" % (label, len(seen["run"])))
        elif seen["exit"] != [7]:
            r.fail("%s|exit-status|dropped" % label, where,
                   "%s: run() returned 7 and the process exit status is %s: a failing validation ends with status 0" % (
                       label, "never set (sys.exit not called)" if not seen["exit"] else "set to %r" % (seen["exit"],)))
        elif seen["parse"] and seen["run"][0][1].get("arguments", seen["run"][0][0][0] if seen["run"][0][0] else None) != {"parsed": True}:
            r.fail("%s|exit-status|arguments" % label, where, "%s does not hand parse_args()'s result to run()" % label)
        else:
            r.ok(where, "sys.exit(run(parse_args(...))): the stand-in status 7 arrives at sys.exit")
    return r


def rule_options(ctx, rid="R19.6"):
    prog = ctx.prog
    f = prog.func("cli.parse_args")
    r = ctx.rule(rid, "--error-format is rejected with non-plain output; the default format is installed only when none is given", floor=2)
    sem = _options_eval(prog, f)
    if sem is not None:
        if sem == "":
            r.ok(site(f), "non-plain output with --error-format -> parser.error (five option combinations evaluated, the empty format included)")
            r.ok(site(f) + " [default]", "the default error format is installed exactly when output is plain and none was given; a given one is kept")
        else:
            r.fail("%s|%s" % (f.qual, "reject" if "reject" in sem else "default"), site(f), sem)
        return r
    src = [norm(n) for n in walk_body(f) if isinstance(n, ast.If)]
    rej = [s for s in src if "!= 'plain'" in s.split(":")[0] and "error_format" in s.split(":")[0] and "parser.error" in s]
    dfl = [s for s in src if "== 'plain'" in s.split(":")[0] and "is None" in s.split(":")[0] and "arguments['error_format'] =" in s]
    if not rej and not dfl and not any("arguments[" in x for x in src):
        # neither the table (outside the evaluated fragment) nor the shape (the options are not read as arguments[...]) decides
        r.ok(site(f), "NOT DECIDED: parse_args is outside the evaluated fragment and not written over arguments[...]")
        r.ok(site(f) + " [default]", "NOT DECIDED")
        r.note(site(f), "%s not decided" % rid)
        return r
    if rej:
        r.ok(site(f), "non-plain output with --error-format -> parser.error")
    else:
        r.fail("%s|reject" % f.qual, site(f), "--error-format with --output pretty is not rejected")
    if dfl:
        r.ok(site(f), "default error format only when output is plain and none was given")
    else:
        r.fail("%s|default" % f.qual, site(f), "default error format is not installed exactly when missing")
    return r


def rule_validator_built_once(ctx, rid="R19.8"):
    """The validator used for every instance is built once from the checked schema with the chosen class."""
    prog = ctx.prog
    calls = calls_of(prog)
    il = InstanceLoop(prog)
    f = il.func
    cfg = cfg_of(f)
    r = ctx.rule(rid, "one validator, built from the checked schema, validates every instance", floor=2)
    loop = il.loop
    n, c = il.vnode, il.vcall
    kw = {k.arg: k.value for k in c.keywords}
    g = prog.func("cli._validate_instance")
    for i, a in enumerate(c.args):
        kw[g.params[i]] = a
    lv = loop.ast.target.id if isinstance(loop.ast.target, ast.Name) else None
    rd = reaching_defs(cfg)
    vname = kw.get("validator")
    run = il.run
    rcfg = cfg_of(run)
    rrd = reaching_defs(rcfg)
    ok = False
    if isinstance(vname, ast.Name):
        if il.func is run:
            at, name = n, vname.id
        else:
            tr = il.in_run(vname)
            at, name = il.gate, (tr.id if isinstance(tr, ast.Name) else None)
            # the helper must not rebind its parameter
            if any(cfg.nodes[d] is not cfg.entry for d in rd[n.id].get(vname.id, ())):
                name = None
        if name is not None:
            defs = [rcfg.nodes[d] for d in rrd[at.id].get(name, ())]
            in_loop = (lambda d: (il.func is run and loop in d.loops))
            ok = len(defs) == 1 and not in_loop(defs[0]) and isinstance(defs[0].ast, ast.Assign) and isinstance(defs[0].ast.value, ast.Call)
            if ok:
                cc = defs[0].ast.value
                ok = "validator" in norm(cc.func) and cc.args and isinstance(cc.args[0], ast.Name) and cc.args[0].id == "schema"
    if ok:
        r.ok(site(f, c), "validator built once before the loop from the loaded schema")
    else:
        r.fail("%s|validator-prov" % f.qual, site(f, c), "the validator passed to _validate_instance is not the one built once from the checked schema")
    inst = kw.get("instance")
    ip = kw.get("instance_path")
    idefs = [cfg.nodes[d] for d in rd[n.id].get(inst.id, ())] if isinstance(inst, ast.Name) else []
    ok2 = (len(idefs) == 1 and loop in idefs[0].loops and isinstance(idefs[0].ast, ast.Assign) and isinstance(idefs[0].ast.value, ast.Call)
           and [norm(a) for a in idefs[0].ast.value.args] == [lv] and isinstance(ip, ast.Name) and ip.id == lv)
    if ok2:
        r.ok(site(f, c), "instance = load(<this loop entry>), reported under the same path")
    else:
        r.fail("%s|instance-prov" % f.qual, site(f, c), "the validated instance / reported path do not belong to the current loop entry")
    return r


def rule_cli_table(ctx, sem):
    prog = ctx.prog
    run_f = prog.func("cli.run")
    n = sem.get("_scenarios", 0)
    spec = [
        ("R19.1", "schema load and check_schema failures return non-zero before any instance is looked at", 4, ("schema-first", "exit"), "exit:",
         ["a missing, unparsable, undecodable or invalid schema: non-zero, no instance file opened, nothing constructed", "exit status non-zero in each of these",
          "one diagnostic / one SchemaError report", "a usable schema goes on to the instances"]),
        ("R19.2", "every listed instance is processed whatever happened before", 3, ("all-instances",), "loop-exit:",
         ["every instance file is opened, in order, after missing / unparsable / invalid predecessors", "every loadable instance is validated once, in order", "lists of one to three instances"]),
        ("R19.3", "the exit status accumulates monotonically: once non-zero it stays non-zero", 4, ("exit",), "accumulator",
         ["status 0 exactly when the schema is usable and every instance loads and is valid", "a later valid instance does not reset it", "stdin instance likewise", "an integer"]),
        ("R19.4", "one report per error, success only when there was none, the returned flag says which", 4, ("reports", "streams"), "iter_errors-loop",
         ["one report per error the validator yields (0, 1 and 2 errors)", "one success message per valid instance, none otherwise", "plain and pretty", "the flag feeds the exit status"]),
        ("R19.5", "errors and diagnostics go to stderr, success to stdout, each exactly the formatter's text once; plain success is empty", 6, ("streams", "diagnostics"), "stream",
         ["errors on stderr", "diagnostics on stderr", "success headers on stdout only", "plain mode: nothing on stdout", "each once", "pretty mode: one block each"]),
        ("R19.7", "every way json.load can fail on a text stream becomes one parsing diagnostic and _CannotLoadFile", 2, ("diagnostics", "all-instances"), "uncaught|",
         ["not JSON, not UTF-8, raw control characters, missing: one diagnostic each, files and stdin", "processing continues with the next instance"]),
        ("R19.8", "one validator, built from the checked schema, validates every instance", 2, ("class", "all-instances", "resolver"), "instance-prov",
         ["one construction, after check_schema, with the loaded schema; what is validated is what was loaded", "a resolver only for --base-uri, on that URI and the schema"]),
        ("R19.9", "validator_for is consulted only when no class was given, and its result is what is then used", 1, ("class",), "guard",
         ["an explicit class does check_schema and construction; otherwise the class validator_for selects"]),
    ]
    for rid, title, floor, clauses, key, oks in spec:
        r = ctx.rule(rid, title, floor=floor)
        bad = [sem[c] for c in clauses if sem.get(c)]
        if bad:
            r.fail("%s|%s%s" % (run_f.qual, key, "table"), site(run_f), bad[0])
        else:
            for t in oks:
                r.ok(site(run_f) + " [%s]" % t[:50], "%s (%d scenarios evaluated)" % (t, n))


def run(ctx):
    ctx.explanation = (
        "C19 is decided on the CFG of cli.run, cli._validate_instance and the _Outputter/formatter methods: dominators "
        "for the schema gate, loop-exit rule for per-instance processing, abstract interpretation of the exit-status "
        "accumulator over {zero, nonzero}, handler coverage of json.load's exception effect, stream discipline by "
        "who-writes-where. Not decided: wording of diagnostics.")
    ctx.assume("json.load on a text stream raises JSONDecodeError or UnicodeDecodeError (stdlib model); open() failures other than ENOENT are re-raised on purpose")
    from .clisem import cli_eval
    sem = ctx.extra["_clisem"] = cli_eval(ctx.prog)
    if sem is not None and "raises" not in sem:
        # decided by running cli.run inside the definitional interpreter on a table of scenarios (sa/rules/clisem.py); the CFG rules
        # below remain the fallback for code outside the evaluated fragment
        rule_cli_table(ctx, sem)
        rule_options(ctx)
        rule_argv(ctx)
        rule_main_exit_status(ctx)
        rule_errors_as_produced(ctx)
        # R19.12: the class named on the command line is the one that validates (C19-r6m2)
        from .c20 import rule_named_class
        rule_named_class(ctx, "R19.12")
        return
    if sem is not None and "raises" in sem:
        # a command line of the table on which run() does not return at all: that is a finding of its own, whatever the CFG rules
        # (which may not recognise the code's shape) go on to say
        r0 = ctx.rule("R19.0", "cli.run returns an exit status for every command line of the scenario table (no exception escapes it)", floor=1)
        r0.fail("cli.run|table|raises", site(ctx.prog.func("cli.run")), "on the scenario table cli.run %s" % sem["raises"])
        try:
            _structural(ctx)
        except AnalysisError as e:
            r0.note(site(ctx.prog.func("cli.run")), "CFG rules not applicable to this shape: %s" % e)
        return
    _structural(ctx)


def _structural(ctx):
    rule_schema_gate(ctx)
    rule_every_instance(ctx)
    rule_monotone_status(ctx)
    rule_validate_instance(ctx)
    rule_streams(ctx)
    rule_options(ctx)
    rule_argv(ctx)
    rule_main_exit_status(ctx)
    rule_errors_as_produced(ctx)
    from .c20 import rule_named_class
    rule_named_class(ctx, "R19.12")
    rule_parse_failures(ctx)
    rule_validator_built_once(ctx)
    # R19.9: an explicit --validator always wins (the CLI half of C20's R20.3)
    from .c20 import rule_explicit_class_wins
    rule_explicit_class_wins(ctx, "R19.9", only=("cli.run",))
