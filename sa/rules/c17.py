"""C17 - ErrorTree (partial)."""
import ast

from ..prog import norm, walk_body, walk_local, AnalysisError, Func
from ..cfg import cfg_of, reaching_defs, node_exprs, walk_expr
from ..calls import calls_of
from ..common import find_method
from ..report import site


def _user_data_lookups(prog, calls, m):
    """Operations in method m that index/probe the recorded instance (user data) outside any try."""
    out = []
    cfg = cfg_of(m)
    for n in cfg.live:
        if any(wh == "body" for (_t, wh) in n.trys):
            continue
        for e in node_exprs(n):
            for s in walk_expr(e):
                if isinstance(s, ast.Subscript) and isinstance(s.value, ast.Attribute) and s.value.attr == "_instance" \
                        and calls.type_of(m, s.value.value) == "ErrorTree" and isinstance(s.ctx, ast.Load):
                    out.append((n, s))
    return out


def rule_construction_total(ctx, rid="R17.1"):
    prog = ctx.prog
    calls = calls_of(prog)
    init = find_method(prog, "exceptions.ErrorTree", "__init__")
    getitem = find_method(prog, "exceptions.ErrorTree", "__getitem__")
    r = ctx.rule(rid, "building the tree never goes through a lookup that is validated against the recorded instance", floor=1)
    raising = _user_data_lookups(prog, calls, getitem)
    # does __init__ subscript an ErrorTree (-> the user-facing __getitem__)?
    hits = []
    for n in walk_body(init):
        if isinstance(n, ast.Subscript) and isinstance(n.ctx, ast.Load) and calls.type_of(init, n.value) == "ErrorTree":
            hits.append(n)
        if isinstance(n, ast.Call) and isinstance(n.func, ast.Attribute) and n.func.attr == "__getitem__" and calls.type_of(init, n.func.value) == "ErrorTree":
            hits.append(n)
    direct = [n for n in walk_body(init) if isinstance(n, ast.Subscript) and isinstance(n.value, ast.Attribute) and n.value.attr == "_instance"]
    if hits and raising:
        for h in hits:
            r.fail("%s|walk-through-checked-getitem|%s" % (init.qual, norm(h)), site(init, h),
                   "the constructor walks the tree with `%s`, i.e. through ErrorTree.__getitem__, which evaluates `%s` whenever an earlier error already "
                   "recorded an instance at that node and the element has no child yet: a path element that is not in the instance (Draft 3 `required` puts the "
                   "missing property there) raises KeyError/IndexError/TypeError from the constructor" % (norm(h), norm(raising[0][1])),
                   raising_operation=site(getitem, raising[0][1]))
    elif direct:
        for d in direct:
            r.fail("%s|indexes-instance|%s" % (init.qual, norm(d)), site(init, d), "the constructor indexes the recorded instance: %s" % norm(d))
    else:
        walk = [n for n in walk_body(init) if isinstance(n, ast.Subscript) and isinstance(n.ctx, ast.Load)]
        r.ok(site(init), "walk uses %s; no lookup on user data is reachable from the constructor" % ([norm(w) for w in walk] or "no subscripts"))
    return r


def rule_filed_by_path(ctx, rid="R17.2"):
    prog = ctx.prog
    calls = calls_of(prog)
    init = find_method(prog, "exceptions.ErrorTree", "__init__")
    r = ctx.rule(rid, "each error is filed under its own keyword at the node reached by its own path, from the root", floor=4)
    from .errsem import tree_eval
    sem = tree_eval(prog)
    if sem is not None:
        # decided on a tree built from five of the package's own error objects inside the definitional interpreter
        for clause, key in (("filing", "walk-start"), ("instance-record", "instance-record"), ("order", "walk-start"), ("errors-untouched", "touches-errors"),
                            ("raises", "walk-start")):
            if clause not in sem:
                continue
            if sem[clause] is None:
                r.ok(site(init) + " [%s]" % clause, "holds on the evaluated tree (root error, two errors at one element, one on a sibling, one on the array itself)")
            else:
                r.fail("%s|%s" % (init.qual, key), site(init), sem[clause])
        if "raises" not in sem:
            r.ok(site(init) + " [root]", "the walk restarts at the root for every error")
            r.ok(site(init) + " [steps]", "one child per path element, in order")
        return r
    s = init.params[0]
    ep = init.params[1]
    outer = [n for n in init.body if isinstance(n, ast.For) and norm(n.iter) == ep]
    if len(outer) != 1 or not isinstance(outer[0].target, ast.Name):
        r.fail("%s|outer-loop" % init.qual, site(init), "no single loop over the errors argument")
        return r
    ev = outer[0].target.id
    body = outer[0].body
    # container = self at the start of each error
    first = body[0] if body else None
    cvar = None
    if isinstance(first, ast.Assign) and isinstance(first.targets[0], ast.Name) and norm(first.value) == s:
        cvar = first.targets[0].id
        r.ok(site(init, first), "walk restarts at the root for every error")
    else:
        r.fail("%s|walk-start" % init.qual, site(init, outer[0]), "the walk does not restart at the root (self) for every error")
        return r
    inner = [n for n in body if isinstance(n, ast.For)]
    if len(inner) == 1 and norm(inner[0].iter) == "%s.path" % ev and isinstance(inner[0].target, ast.Name):
        el = inner[0].target.id
        steps = inner[0].body
        ok = len(steps) == 1 and isinstance(steps[0], ast.Assign) and norm(steps[0].targets[0]) == cvar and \
            norm(steps[0].value) in ("%s[%s]" % (cvar, el), "%s._contents[%s]" % (cvar, el))
        if ok:
            r.ok(site(init, inner[0]), "descends one child per element of %s.path, in order: %s" % (ev, norm(steps[0])))
        else:
            r.fail("%s|walk-step" % init.qual, site(init, inner[0]), "the walk does not step container -> container[element] for each path element")
    else:
        r.fail("%s|walk-iter|%s" % (init.qual, norm(inner[0].iter) if inner else "none"), site(init, outer[0]),
               "the walk does not iterate the error's own path front to back (found %s)" % ([norm(i.iter) for i in inner]))
    src = [norm(n) for n in body]
    want1 = "%s.errors[%s.validator] = %s" % (cvar, ev, ev)
    want2 = "%s._instance = %s.instance" % (cvar, ev)
    if want1 in src:
        r.ok(site(init), want1)
    else:
        r.fail("%s|filing" % init.qual, site(init), "the error is not stored as %s" % want1)
    if want2 in src:
        r.ok(site(init), want2)
    else:
        r.fail("%s|instance-record" % init.qual, site(init), "the node's instance is not recorded as %s" % want2)
    return r


def rule_accessors_agree(ctx, rid="R17.3"):
    prog = ctx.prog
    c = prog.cls("exceptions.ErrorTree")
    r = ctx.rule(rid, "__contains__, __iter__, __getitem__, __setitem__ operate on one container that builds children with the tree's own class", floor=5)
    from .errsem import tree_eval
    sem = tree_eval(prog)
    if sem is not None:
        msg = sem.get("accessors") or sem.get("absent-index") or sem.get("raises")
        if sem.get("name-instance"):
            gi = c.methods.get("__getitem__")
            r.fail("exceptions.ErrorTree.__getitem__|name-instance", site(gi) if gi else "exceptions.py ErrorTree", sem["name-instance"])
        elif "name-instance" in sem:
            r.ok(site(c.methods.get("__getitem__") or c.methods["__init__"]) + " [name]", "an error-free member is found although the node's recorded instance is a member name")
        for name in ("__contains__", "__iter__", "__getitem__", "__setitem__"):
            m = c.methods.get(name)
            if m is None:
                r.fail("exceptions.ErrorTree.%s|container" % name, "exceptions.py ErrorTree", "%s vanished" % name)
            elif msg is None:
                r.ok(site(m), "agrees with the other accessors on the evaluated tree")
        if msg is None:
            r.ok(site(c.methods["__init__"]), "children are trees of the tree's own class; an error-free index of the instance gives an empty tree, a foreign one raises")
        else:
            m = c.methods.get("__getitem__") if "look" in msg and "index" in msg else c.methods.get("__contains__")
            r.fail("exceptions.ErrorTree.%s|container" % (m.name if m else "__contains__"), site(m) if m else "exceptions.py ErrorTree", msg)
        return r
    init = c.methods["__init__"]
    s = init.params[0]
    mk = [n for n in walk_body(init) if isinstance(n, ast.Assign) and norm(n.targets[0]) == "%s._contents" % s]
    if len(mk) == 1 and norm(mk[0].value) in ("defaultdict(%s.__class__)" % s, "defaultdict(type(%s))" % s):
        r.ok(site(init, mk[0]), "_contents = %s" % norm(mk[0].value))
    else:
        r.fail("%s|contents" % init.qual, site(init), "_contents is not a defaultdict creating children of the tree's own class: %s" % [norm(m.value) for m in mk])
    shapes = {
        "__contains__": lambda m: any(isinstance(n, ast.Return) and norm(n.value) == "%s in %s._contents" % (m.params[1], m.params[0]) for n in walk_body(m)),
        "__iter__": lambda m: any(isinstance(n, ast.Return) and norm(n.value) == "iter(%s._contents)" % m.params[0] for n in walk_body(m)),
        "__getitem__": lambda m: any(isinstance(n, ast.Return) and norm(n.value) == "%s._contents[%s]" % (m.params[0], m.params[1]) for n in walk_body(m)),
        "__setitem__": lambda m: any(isinstance(n, ast.Assign) and norm(n.targets[0]) == "%s._contents[%s]" % (m.params[0], m.params[1])
                                     and norm(n.value) == m.params[2] for n in walk_body(m)),
    }
    for name, pred in shapes.items():
        m = c.methods.get(name)
        if m is not None and pred(m):
            r.ok(site(m), "on _contents")
        else:
            r.fail("exceptions.ErrorTree.%s|container" % name, site(m) if m else "exceptions.py ErrorTree", "%s does not operate on _contents with its own arguments" % name)
    return r


def rule_total_errors(ctx, rid="R17.4"):
    prog = ctx.prog
    c = prog.cls("exceptions.ErrorTree")
    r = ctx.rule(rid, "total_errors = own errors + the totals of every child; len() is total_errors", floor=3)
    m = c.methods.get("total_errors")
    if m is None:
        raise AnalysisError("ErrorTree.total_errors vanished")
    from .errsem import tree_eval
    sem = tree_eval(prog)
    if sem is not None:
        msg = sem.get("total") or sem.get("raises")
        if msg is None:
            r.ok(site(m), "own errors plus every child's total, at the root and at three inner nodes")
            r.ok(site(c.methods.get("__len__") or m), "len() is total_errors")
            r.ok(site(m) + " [children]", "every child is counted")
        else:
            r.fail("%s|sum" % m.qual, site(m), msg)
        return r
    s = m.params[0]
    rets = [n for n in walk_body(m) if isinstance(n, ast.Return)]
    if len(rets) != 1:
        r.fail("%s|returns" % m.qual, site(m), "expected one return")
        return r
    # inline single-assignment temporaries
    defs = {}
    for n in walk_body(m):
        if isinstance(n, ast.Assign) and isinstance(n.targets[0], ast.Name):
            defs.setdefault(n.targets[0].id, []).append(n.value)

    class Inl(ast.NodeTransformer):
        def visit_Name(self, node):
            if node.id in defs and len(defs[node.id]) == 1:
                return self.visit(defs[node.id][0])
            return node
    import copy
    # an accumulation loop `acc = <init>; for .. in self._contents.items()/values(): acc += len(tree)` is the same sum
    for n in walk_body(m):
        if isinstance(n, ast.For) and not n.orelse and len(n.body) == 1 and isinstance(n.body[0], ast.AugAssign) and isinstance(n.body[0].op, ast.Add) \
                and isinstance(n.body[0].target, ast.Name):
            acc = n.body[0].target.id
            it = norm(n.iter)
            tv = None
            if it == "%s._contents.items()" % s and isinstance(n.target, ast.Tuple) and len(n.target.elts) == 2:
                tv = norm(n.target.elts[1])
            elif it == "%s._contents.values()" % s:
                tv = norm(n.target)
            if tv is not None and norm(n.body[0].value) in ("len(%s)" % tv, "%s.total_errors" % tv) and len(defs.get(acc, [])) == 1:
                gen = ast.parse("sum(len(t) for t in %s._contents.values())" % s, mode="eval").body
                defs[acc] = [ast.BinOp(left=defs[acc][0], op=ast.Add(), right=gen)]
    expr = Inl().visit(copy.deepcopy(rets[0].value))
    txt = norm(expr)
    # flatten a sum
    terms = []

    def flat(e):
        if isinstance(e, ast.BinOp) and isinstance(e.op, ast.Add):
            flat(e.left)
            flat(e.right)
        else:
            terms.append(e)
    flat(expr)
    own = [t for t in terms if norm(t) == "len(%s.errors)" % s]
    kids = []
    for t in terms:
        if isinstance(t, ast.Call) and norm(t.func) == "sum" and len(t.args) == 1 and isinstance(t.args[0], (ast.GeneratorExp, ast.ListComp)):
            g = t.args[0]
            gen = g.generators[0]
            it = norm(gen.iter)
            whole = it in ("%s._contents.items()" % s, "%s._contents.values()" % s) and not gen.ifs and len(g.generators) == 1
            elt = norm(g.elt)
            tv = None
            if it.endswith(".items()") and isinstance(gen.target, ast.Tuple) and len(gen.target.elts) == 2:
                tv = norm(gen.target.elts[1])
            elif it.endswith(".values()"):
                tv = norm(gen.target)
            child_total = tv is not None and elt in ("len(%s)" % tv, "%s.total_errors" % tv)
            if whole and child_total:
                kids.append(t)
    others = [t for t in terms if t not in own and t not in kids and not (isinstance(t, ast.Constant) and t.value == 0)]
    if len(own) == 1:
        r.ok(site(m), "counts its own errors: len(self.errors)")
    else:
        r.fail("%s|own-errors" % m.qual, site(m), "total_errors does not add len(self.errors) exactly once: %s" % txt)
    if len(kids) == 1:
        r.ok(site(m), "adds the total of every child: %s" % norm(kids[0]))
    else:
        r.fail("%s|children" % m.qual, site(m), "total_errors does not add the total of *every* child exactly once: %s" % txt)
    for t in others:
        r.fail("%s|extra-term|%s" % (m.qual, norm(t)), site(m), "unexpected term %s in total_errors" % norm(t))
    ln = c.methods.get("__len__")
    if ln is not None and any(isinstance(n, ast.Return) and norm(n.value) == "%s.total_errors" % ln.params[0] for n in walk_body(ln)):
        r.ok(site(ln), "__len__ returns total_errors")
    else:
        r.fail("exceptions.ErrorTree.__len__|shape", site(ln) if ln else "ErrorTree", "__len__ is not total_errors")
    if not any(norm(d) == "property" for d in m.decorators):
        r.fail("%s|not-property" % m.qual, site(m), "total_errors is not a property")
    return r


def rule_construction_effects(ctx, rid="R17.1b"):
    """The kind interpreter on ErrorTree.__init__ with any list of errors (paths of strings/ints, any JSON instance): the escape
    set must be empty.  total_errors/len/iteration likewise."""
    from ..interp import Interp, obj
    from ..kinds import AV
    from .c03 import run_entry
    prog = ctx.prog
    r = ctx.rule(rid, "abstract interpretation: constructing an ErrorTree from any errors, and counting it, raises nothing", floor=3)
    I = Interp(prog, "draft7")
    errs = AV(["list"], elem=AV(["err"]))
    for q, args in (("exceptions.ErrorTree.__init__", [obj("ErrorTree"), errs]),
                    ("exceptions.ErrorTree.total_errors", [obj("ErrorTree")]),
                    ("exceptions.ErrorTree.__len__", [obj("ErrorTree")]),
                    ("exceptions.ErrorTree.__contains__", [obj("ErrorTree"), AV(["str", "int"])]),
                    ("exceptions.ErrorTree.__iter__", [obj("ErrorTree")])):
        f = prog.func(q)
        eff = run_entry(I, f, args)
        found = {}
        for x in eff:
            found.setdefault(x.key(), x)
        if not found:
            r.ok(site(f), "escape set empty")
        else:
            r.pending(site(f), "escapes %s" % sorted({x.exc for x in found.values()}))
        for key, x in sorted(found.items()):
            r.findings.append({"rule": r.id, "key": "%s|%s" % (r.id, key), "site": site(x.func, x.node),
                               "msg": "%s can escape %s: %s%s" % (x.exc, f.name, x.op, (" -- operand %s" % x.operand) if x.operand else ""),
                               "detail": {"call_chain": " <- ".join(reversed(x.chain)) if x.chain else ""}})
    return r


def run(ctx):
    ctx.explanation = (
        "C17 structural clauses: R17.1 call-graph reachability from ErrorTree.__init__ to a subscript on the recorded instance "
        "(user data) with no handler; R17.2 the constructor's walk consumes the error's own path from the root and files the "
        "error under its own keyword; R17.3 the four accessors agree on one container; R17.4 total_errors depends on own errors "
        "and on every child. Not decided: concrete counts.")
    ctx.assume("collections.defaultdict creates a child on first access")
    rule_construction_total(ctx)
    rule_construction_effects(ctx)
    rule_filed_by_path(ctx)
    rule_accessors_agree(ctx)
    rule_total_errors(ctx)
    # R17.9: no behaviour changes at a number fixed in the source (sizes, depths, counts, magnitudes are unbounded in the property's domain)
    from . import scope as _scope
    _scope.rule_no_size_thresholds(ctx, 'R17.9', ('exceptions',), 'the error tree')
    _scope.rule_no_value_identity(ctx, 'R17.10', ('exceptions',), 'the error classes and the error tree')
