"""C20 - the draft is chosen from $schema (claimed)."""
import ast

from ..prog import norm, walk_body, AnalysisError, Func, DRAFTS
from ..cfg import cfg_of, reaching_defs, node_exprs, walk_expr
from ..calls import calls_of
from ..effects import effects_of
from ..common import calls_at, const_of, find_method
from ..report import site
from . import tables
from .c02 import only_via_edge


def _is_registry(prog, f, e):
    """e names validators.meta_schemas."""
    r = prog.resolve_expr(f.mod, e, f)
    if isinstance(r, tuple) and r[0] == "expr" and r[1].name == "validators":
        tgt = prog.mod("validators").top.get("meta_schemas")
        return r[2] is tgt
    return False


def _latest(prog, f, e):
    r = prog.resolve_expr(f.mod, e, f)
    # _LATEST_VERSION = Draft7Validator resolves through to the create(...) call expression
    name = e.id if isinstance(e, ast.Name) else None
    return name == "_LATEST_VERSION"


def rule_validator_for(ctx, rid="R20.1"):
    prog = ctx.prog
    calls = calls_of(prog)
    f = prog.func("validators.validator_for")
    cfg = cfg_of(f)
    r = ctx.rule(rid, "validator_for: default for boolean/missing $schema, registry lookup otherwise, warning exactly for unknown URIs", floor=4)
    from .c02 import _valsem
    sem = _valsem(ctx, "selection_eval")
    if sem is not None:
        # decided by calling validator_for inside the definitional interpreter on 14 (schema, default) rows with a stub registry
        if sem["selection"] is None:
            r.ok(site(f) + " [default]", "true, false and schemas without $schema select the default (the latest draft unless one is passed)")
            r.ok(site(f) + " [registered]", "a registered id selects its class, with or without the empty fragment, whatever default is passed")
            r.ok(site(f) + " [unknown]", "an unrecognised $schema selects the latest draft, not the passed default")
            r.ok(site(f) + " [warning]", "exactly one DeprecationWarning, exactly in the unrecognised case; the registry is not written")
        else:
            kind = "default-edges" if "default" in sem["selection"] or "True" in sem["selection"] or "False" in sem["selection"] else "lookup|semantic"
            r.fail("%s|%s" % (f.qual, kind), site(f), sem["selection"])
        return r
    sp, dp = f.params[0], f.params[1]
    # parameter default
    dflt = f.node.args.defaults[-1] if f.node.args.defaults else None
    if isinstance(dflt, ast.Name) and dflt.id == "_LATEST_VERSION":
        r.ok(site(f), "default=_LATEST_VERSION")
    else:
        r.fail("%s|param-default|%s" % (f.qual, norm(dflt)), site(f), "the default class is %s, not the latest draft" % norm(dflt))
    rets = [n for n in cfg.live if n.kind == "return"]
    # classify tests
    bool_tests, has_tests, reg_tests = [], [], []
    for n in cfg.live:
        if n.kind != "test":
            continue
        e = n.ast
        if isinstance(e, ast.Compare) and len(e.ops) == 1:
            l, c, op = e.left, e.comparators[0], e.ops[0]
            if isinstance(op, ast.Is) and isinstance(l, ast.Name) and l.id == sp and isinstance(c, ast.Constant) and c.value in (True, False):
                bool_tests.append((n, c.value))
            elif isinstance(op, (ast.In, ast.NotIn)) and const_of(l) == "$schema" and isinstance(c, ast.Name) and c.id == sp:
                has_tests.append((n, "true" if isinstance(op, ast.In) else "false"))
            elif isinstance(op, (ast.In, ast.NotIn)) and isinstance(l, ast.Subscript) and const_of(l.slice) == "$schema" \
                    and norm(l.value) == sp and _is_registry(prog, f, c):
                reg_tests.append((n, "true" if isinstance(op, ast.In) else "false"))
        elif isinstance(e, ast.Call) and norm(e.func) == "isinstance" and len(e.args) == 2 and norm(e.args[0]) == sp and norm(e.args[1]) == "bool":
            bool_tests.append((n, "both"))
    covered_bools = set()
    for n, v in bool_tests:
        covered_bools |= {True, False} if v == "both" else {v}
    # the default return: reachable exactly via the boolean / missing edges
    dret = [n for n in rets if isinstance(n.ast.value, ast.Name) and n.ast.value.id == dp]
    lret = [n for n in rets if n not in dret]
    if covered_bools == {True, False} and has_tests and dret:
        ok = True
        # the lookup return must only be reachable with $schema present
        for n in lret:
            if not only_via_edge(cfg, n, has_tests, True):
                ok = False
        # subscripts schema["$schema"] only when present
        for n in cfg.live:
            if any(isinstance(s, ast.Subscript) and norm(s.value) == sp for e in node_exprs(n) for s in walk_expr(e)):
                if not only_via_edge(cfg, n, has_tests, True):
                    ok = False
        if ok:
            r.ok(site(f, dret[0].ast), "boolean schema or missing $schema -> return %s; $schema read only when present" % dp)
        else:
            r.fail("%s|missing-schema-path" % f.qual, site(f), "$schema is read, or the registry result returned, on a path where $schema may be absent")
    else:
        r.fail("%s|default-edges" % f.qual, site(f),
               "validator_for does not return the caller's default for True, False and missing $schema (bool tests: %s, presence tests: %d, default returns: %d)" % (
                   sorted(covered_bools), len(has_tests), len(dret)))
    # the lookup return
    for n in lret:
        v = n.ast.value
        ok = (isinstance(v, ast.Call) and isinstance(v.func, ast.Attribute) and v.func.attr == "get" and _is_registry(prog, f, v.func.value)
              and len(v.args) == 2 and isinstance(v.args[0], ast.Subscript) and norm(v.args[0].value) == sp
              and const_of(v.args[0].slice) == "$schema" and isinstance(v.args[1], ast.Name) and v.args[1].id == "_LATEST_VERSION")
        if ok:
            r.ok(site(f, n.ast), "meta_schemas.get(schema[\"$schema\"], _LATEST_VERSION): normalising registry, latest draft as fallback")
        else:
            r.fail("%s|lookup|%s" % (f.qual, norm(v)), site(f, n.ast),
                   "the selected class is not meta_schemas.get(schema[\"$schema\"], _LATEST_VERSION): %s" % norm(v))
    if not lret:
        r.fail("%s|no-lookup-return" % f.qual, site(f), "no return of a registry lookup")
    # the warning
    warns = [(n, c) for n in cfg.live for (c, tg) in calls_at(calls, f, n) if any(t.kind == "ext" and t.name.endswith("warn") for t in tg)]
    if len(warns) == 1 and reg_tests:
        wn, wc = warns[0]
        unknown_edges = [(t, "false" if lab == "true" else "true") for (t, lab) in reg_tests]
        on_unknown = only_via_edge(cfg, wn, unknown_edges, True)
        # and every path from the unknown edge passes the warn node before returning
        skips = False
        for (t, lab) in unknown_edges:
            todo = [x for (l, x) in t.succ if l == lab]
            seen = set()
            while todo:
                x = todo.pop()
                if x.id in seen or x is wn:
                    continue
                seen.add(x.id)
                if x.kind in ("return", "exit"):
                    skips = True
                todo.extend(y for (l, y) in x.succ if l != "exc")
        cat = [norm(a) for a in wc.args[1:2]] + [norm(k.value) for k in wc.keywords if k.arg == "category"]
        if on_unknown and not skips and "DeprecationWarning" in cat:
            r.ok(site(f, wc), "DeprecationWarning exactly on the not-in-registry edge")
        else:
            r.fail("%s|warn-edge" % f.qual, site(f, wc),
                   "the DeprecationWarning is not issued exactly when $schema is not registered (only-on-unknown=%s, skipped=%s, category=%s)" % (on_unknown, skips, cat))
    else:
        r.fail("%s|warn-count:%d" % (f.qual, len(warns)), site(f), "expected exactly one warn() guarded by a registry membership test (found %d warns, %d tests)" % (len(warns), len(reg_tests)))
    return r


def rule_latest(ctx, rid="R20.2"):
    prog = ctx.prog
    m = prog.mod("validators")
    r = ctx.rule(rid, "_LATEST_VERSION is bound once, to the highest draft", floor=1)
    binds = m.bindings.get("_LATEST_VERSION", [])
    newest = prog.tables.drafts[sorted(DRAFTS)[-1]]
    if len(binds) == 1 and isinstance(binds[0][0], ast.Name) and binds[0][0].id == newest.var:
        r.ok("jsonschema/validators.py:%d _LATEST_VERSION" % binds[0][1].lineno, "= %s (version %s)" % (newest.var, newest.version))
    else:
        r.fail("validators._LATEST_VERSION|%s" % ";".join(norm(b[0]) for b in binds), "jsonschema/validators.py _LATEST_VERSION",
               "_LATEST_VERSION is bound to %s; the highest draft is %s" % ([norm(b[0]) for b in binds], newest.var))
    # nobody rebinds it
    for f in prog.funcs.values():
        for n in walk_body(f):
            if isinstance(n, ast.Global) and "_LATEST_VERSION" in n.names:
                r.fail("%s|global-latest" % f.qual, site(f, n), "_LATEST_VERSION is rebound at run time")
    return r


def rule_explicit_class_wins(ctx, rid="R20.3", only=None):
    prog = ctx.prog
    calls = calls_of(prog)
    vf = prog.func("validators.validator_for")
    r = ctx.rule(rid, "validator_for is consulted only when no class was given, and its result is what is then used", floor=2 if only is None else 1)
    for f, what in ((prog.func("validators.validate"), "cls"), (prog.func("cli.run"), 'arguments["validator"]')):
        if only is not None and f.qual not in only:
            continue
        if f.qual == "validators.validate":
            from .c02 import _valsem
            sem = _valsem(ctx, "selection_eval")
            if sem is not None:
                if sem["validate"] is None:
                    r.ok(site(f), "an explicit class is used for check_schema and construction, validator_for's choice otherwise (four rows evaluated)")
                    r.ok(site(f) + " [slot]", "check_schema and construction go to the same class, with the schema unchanged")
                else:
                    r.fail("%s|guard" % f.qual, site(f), sem["validate"])
                continue
        if f.qual == "cli.run":
            if "_clisem" not in ctx.extra:
                from .clisem import cli_eval
                try:
                    ctx.extra["_clisem"] = cli_eval(prog)
                except RecursionError:
                    ctx.extra["_clisem"] = None
            csem = ctx.extra["_clisem"]
            if csem is not None and "raises" not in csem:
                if csem["class"] is None:
                    r.ok(site(f), "[semantic] --validator's class is used for check_schema and construction; without it the class the schema's $schema "
                                  "selects, else the default (%d command lines evaluated)" % csem.get("_scenarios", 0))
                else:
                    r.fail("%s|guard" % f.qual, site(f), csem["class"])
                continue
        cfg = cfg_of(f)
        vcalls = [(n, c) for n in cfg.live for (c, tg) in calls_at(calls, f, n) if any(t.kind == "func" and t.func is vf for t in tg)]
        if len(vcalls) != 1:
            r.fail("%s|validator_for-calls:%d" % (f.qual, len(vcalls)), site(f), "expected one validator_for call, found %d" % len(vcalls))
            continue
        n, c = vcalls[0]
        tgt = n.ast.targets[0] if n.kind == "stmt" and isinstance(n.ast, ast.Assign) else None
        tests = []
        for t in cfg.live:
            if t.kind == "test" and isinstance(t.ast, ast.Compare) and len(t.ast.ops) == 1 and isinstance(t.ast.ops[0], (ast.Is, ast.IsNot)) \
                    and const_of(t.ast.comparators[0]) is None and isinstance(t.ast.comparators[0], ast.Constant) \
                    and tgt is not None and norm(t.ast.left) == norm(tgt):
                tests.append((t, "true" if isinstance(t.ast.ops[0], ast.Is) else "false"))
        if tgt is None or not tests:
            r.fail("%s|unguarded" % f.qual, site(f, c), "validator_for result is not stored into the class slot under a `%s is None` test" % what)
            continue
        guarded = only_via_edge(cfg, n, tests, True)
        arg_ok = len(c.args) == 1 and isinstance(c.args[0], ast.Name) and c.args[0].id == "schema" and not c.keywords
        if guarded and arg_ok:
            r.ok(site(f, c), "%s = validator_for(schema) only on the `%s is None` edge" % (norm(tgt), norm(tgt)))
        else:
            r.fail("%s|guard" % f.qual, site(f, c), "an explicitly given class can be overridden (guarded=%s) or a default other than the schema's own is used (%s)" % (guarded, norm(c)))
        # uses: check_schema and construction go through the same slot
        uses = [cc for x in cfg.live for (cc, _tg) in calls_at(calls, f, x)
                if (isinstance(cc.func, ast.Attribute) and cc.func.attr == "check_schema" and norm(cc.func.value) == norm(tgt))
                or norm(cc.func) == norm(tgt)]
        if len(uses) >= 2:
            r.ok(site(f), "check_schema and construction both use %s" % norm(tgt))
        else:
            r.fail("%s|slot-uses" % f.qual, site(f), "check_schema / construction do not both go through %s" % norm(tgt))
    return r


def rule_registration(ctx, rid="R20.4"):
    prog = ctx.prog
    calls = calls_of(prog)
    eff = effects_of(prog)
    r = ctx.rule(rid, "the registries are only ever added to, by validates(), under the version and the class's own metaschema id", floor=3)
    regs = {"validators", "meta_schemas"}
    writers = []
    for f in prog.funcs.values():
        for w in eff.direct_writes(f):
            for t in w.locs:
                if t[0] == "G" and t[1] == "validators" and t[2] in regs:
                    writers.append((f, w, t))
        for n in walk_body(f):
            if isinstance(n, ast.Global) and regs & set(n.names):
                r.fail("%s|global-rebind" % f.qual, site(f, n), "registry rebound via `global`")
    for f, w, t in writers:
        if f in calls.registration_writers("validators") and w.how == "store-subscript":
            r.ok(site(f, w.node), "%s (adds an entry)" % w.text)
        else:
            r.fail("%s|registry-write|%s" % (f.qual, w.text), site(f, w.node),
                   "registry %s is modified by %s (%s): existing registrations can be disturbed" % (t[2], f.qual, w.how))
    # module-level rebinding
    m = prog.mod("validators")
    for name in regs:
        if len(m.bindings.get(name, [])) != 1:
            r.fail("validators.%s|rebinding" % name, "jsonschema/validators.py %s" % name, "registry %s is bound %d times at module level" % (name, len(m.bindings.get(name, []))))
    ms = m.top.get("meta_schemas")
    if isinstance(ms, ast.Call) and norm(ms.func).endswith("URIDict") and not ms.args and not ms.keywords:
        r.ok("jsonschema/validators.py meta_schemas", "an (initially empty) URIDict: keys normalised on every access")
    else:
        r.fail("validators.meta_schemas|type", "jsonschema/validators.py meta_schemas", "meta_schemas is not a URIDict(): %s" % norm(ms))
    from .c02 import _valsem
    sem = _valsem(ctx, "classes_eval")
    if sem is not None:
        v = prog.func("validators.validates")
        if sem["registers"] is None:
            r.ok(site(v), "a class created with a version is registered under it and under its own metaschema id (with or without '#'); one without an id only under its version")
            r.ok(site(v) + " [others]", "existing registrations stay; a later class with the same id takes over; create() without version registers nothing")
        else:
            r.fail("%s|shape" % "validators.validates._validates" if "named" not in sem["registers"] else "validators.create|registers", site(v), sem["registers"])
        return r
    # _validates stores cls under version and under ID_OF(META_SCHEMA) when non-empty
    v = prog.func("validators.validates._validates")
    cp = v.params[0]
    body = [norm(n) for n in v.body]
    want1 = "validators[version] = %s" % cp
    has1 = any(b == want1 for b in body)
    idvar = None
    for n in v.body:
        if isinstance(n, ast.Assign) and isinstance(n.value, ast.Call) and norm(n.value) == "%s.ID_OF(%s.META_SCHEMA)" % (cp, cp):
            idvar = norm(n.targets[0])
    has2 = any(isinstance(n, ast.If) and norm(n.test) == idvar and any(norm(s) == "meta_schemas[%s] = %s" % (idvar, cp) for s in n.body) for n in v.body)
    ret = any(isinstance(n, ast.Return) and norm(n.value) == cp for n in v.body)
    if has1 and has2 and ret:
        r.ok(site(v), "stores the class under its version and under its own non-empty metaschema id; returns the class")
    else:
        r.fail("%s|shape" % v.qual, site(v), "validates() does not register the decorated class under version and own metaschema id (version=%s, id=%s, returns=%s)" % (has1, has2, ret))
    # create calls validates(version) iff version is not None
    cr = prog.func("validators.create")
    ok = False
    for n in walk_body(cr):
        if isinstance(n, ast.If) and norm(n.test) == "version is not None":
            if any(isinstance(s, ast.Assign) and "validates(version)" in norm(s.value) for s in n.body):
                ok = True
    if ok:
        r.ok(site(cr), "create registers through validates(version) iff a version is given")
    else:
        r.fail("%s|registers" % cr.qual, site(cr), "create() does not register the class through validates(version) when a version is given")
    return r


def rule_selection_total(ctx, rid="R20.7"):
    """validator_for on any schema object/boolean whose $schema is a string (URI or not) returns a class; it does not raise."""
    from ..interp import Interp
    from .c03 import run_entry
    prog = ctx.prog
    r = ctx.rule(rid, "validator_for returns a class for every schema object or boolean, whatever string $schema holds (it never raises)", floor=1)
    I = Interp(prog, "draft7")
    f = prog.func("validators.validator_for")
    eff = run_entry(I, f, [I.schema_av])
    found = {}
    for x in eff:
        found.setdefault(x.key(), x)
    if not found:
        r.ok(site(f), "no exception effect")
    else:
        r.pending(site(f), "escapes: %s" % sorted({x.exc for x in found.values()}))
    for key, x in sorted(found.items()):
        r.findings.append({"rule": r.id, "key": "%s|%s" % (r.id, key), "site": site(x.func, x.node),
                           "msg": "%s can escape validator_for: %s%s" % (x.exc, x.op, (" -- operand %s" % x.operand) if x.operand else ""),
                           "detail": {"call_chain": " <- ".join(reversed(x.chain)) if x.chain else ""}})
    return r


def rule_resolver_id_key(ctx, rid="R20.8"):
    """"validate() and the CLI then behave exactly as the selected class does": the selected class reads the schema's base
    URI under its own id key (`id` for drafts 3/4, `$id` later).  RefResolver.from_schema defaults to the `$id` reader, so
    any package-side construction that does not forward the class's id_of resolves Draft 3/4 documents differently from
    Draft3Validator(schema) / Draft4Validator(schema)."""
    prog = ctx.prog
    calls = calls_of(prog)
    r = ctx.rule(rid, "every RefResolver.from_schema call in the package forwards the validator class's id_of", floor=1)
    fs = find_method(prog, "validators.RefResolver", "from_schema")
    idp = fs.params[2] if len(fs.params) > 2 else None
    if idp is None:
        raise AnalysisError("RefResolver.from_schema lost its id_of parameter")
    for f in sorted(prog.funcs.values(), key=lambda x: x.qual):
        for n in walk_body(f):
            if not isinstance(n, ast.Call):
                continue
            if not any(t.kind == "func" and t.func is fs for t in calls.callee(f, n)):
                continue
            a = n.args[1] if len(n.args) > 1 else next((k.value for k in n.keywords if k.arg == idp), None)
            if a is None:
                r.fail("%s|from_schema-default-id_of" % f.qual, site(f, n),
                       "`%s` relies on from_schema's default id reader ($id): for a class that reads `id` (Draft 3/4) the base URI and the "
                       "store entry of the schema are lost, unlike <selected class>(schema)" % norm(n)[:60])
            elif isinstance(a, ast.Constant) or (isinstance(a, ast.Name) and a.id == "_id_of"):
                r.fail("%s|from_schema-fixed-id_of|%s" % (f.qual, norm(a)), site(f, n), "`%s` fixes the id reader instead of forwarding the class's" % norm(n)[:60])
            else:
                r.ok(site(f, n), "id_of=%s forwarded" % norm(a))
    return r


def run(ctx):
    ctx.explanation = (
        "C20: R20.1 CFG edge rules on validator_for (default edges, registry lookup, warning exactly on the unknown edge); "
        "R20.2 _LATEST_VERSION is the highest draft; R20.3 validate() and the CLI call validator_for only on the "
        "no-class edge and use the slot they filled; R20.4 who-may-write the registries (only validates(), only adding); "
        "R20.5 each draft's metaschema id sits under the key its class reads and is the draft's URI (data agreement); "
        "R20.8 every package-side RefResolver.from_schema forwards the class's id_of.")
    ctx.assume("urlsplit().geturl() drops an empty fragment (stdlib)")
    rule_validator_for(ctx)
    rule_latest(ctx)
    rule_explicit_class_wins(ctx)
    rule_registration(ctx)
    tables.rule_id_key(ctx, "R20.5a")
    tables.rule_meta_ids(ctx, "R20.5")
    # R20.6: the registry's key normalisation (empty fragment dropped, nothing else): URIDict
    from .c15 import rule_uridict
    rule_uridict(ctx, "R20.6")
    rule_selection_total(ctx)
    rule_resolver_id_key(ctx)
    # R20.9: "an explicitly given class always wins" includes its schema check: check_schema validates with the class it is called
    # on, not with whatever the metaschema's own $schema would select
    from .c11 import rule_wiring
    rule_wiring(ctx, "R20.9")
    rule_named_class(ctx)


def _named_eval(prog):
    """cli._namedAnyWithDefault evaluated with a recording stand-in for namedAny and a registry that holds *other* classes under the
    very names asked for: -> '' | difference | None"""
    from ..tokeval import Ev, Obj, Undecided, PyRaise
    from ..common import find_method
    try:
        f = prog.func("cli._namedAnyWithDefault")
    except AnalysisError:
        return None
    try:
        for name, want in (("Draft4Validator", "jsonschema.Draft4Validator"), ("Draft7Validator", "jsonschema.Draft7Validator"), ("MyValidator", "jsonschema.MyValidator"),
                           ("pkg.mod.Cls", "pkg.mod.Cls"), ("a.B", "a.B")):
            ev = Ev(prog, fuel=20000)
            asked = []
            sentinel = object()

            def named_any(n, asked=asked, sentinel=sentinel):
                asked.append(n)
                return sentinel
            ev.override_func("_reflect.namedAny", named_any)

            class Shadow:
                """an in-house class registered under a version of its own whose __name__ happens to be a stock class's"""
                def __init__(self, nm):
                    self.__name__ = nm
                    self.META_SCHEMA = {}
            reg = ev.module_value("validators", "validators")
            reg["draft 4"] = Shadow("Draft4Validator")
            reg["mine"] = Shadow("MyValidator")
            reg["latest"] = Shadow("Draft7Validator")
            got = ev.call_func(f, [name], {})
            if asked != [want] or got is not sentinel:
                return ("--validator %s resolves to %r (objects asked for by name: %r); it names the object %s, whatever classes are registered under "
                        "whichever versions" % (name, got if got is not sentinel else "<that object>", asked, want))
    except Undecided:
        return None
    except PyRaise as pr:
        return "raises %s (%s)" % (pr.name, pr.msg)
    return ""


def rule_named_class(ctx, rid="R20.10"):
    prog = ctx.prog
    r = ctx.rule(rid, "an explicitly named class is that name's object: `--validator X` is jsonschema.X (or the dotted name given), not a registry lookup", floor=1)
    try:
        sem = _named_eval(prog)
    except RecursionError:
        sem = None
    f = prog.funcs.get("cli._namedAnyWithDefault") or prog.func("cli.parse_args")
    if sem is None:
        r.ok(site(f), "NOT DECIDED: outside the evaluated fragment")
        r.note(site(f), "%s not decided" % rid)
    elif sem == "":
        r.ok(site(f), "five names (bare and dotted) with a registry holding look-alike class names: the named object is asked for, once")
    else:
        r.fail("%s|named-class" % f.qual, site(f), sem)
    return r
