"""C08 - enum, const and uniqueItems use JSON equality at every depth (partial)."""
import ast

from ..prog import norm, walk_body, walk_local, AnalysisError, Func
from ..cfg import cfg_of, node_exprs, walk_expr
from ..calls import calls_of
from ..report import site


def eq_functions(prog):
    """The keyword functions bound to const / enum / uniqueItems (all drafts) and the helpers they reach in _utils."""
    calls = calls_of(prog)
    roots = {}
    for d in prog.tables.drafts.values():
        for k in ("const", "enum", "uniqueItems"):
            if k in d.table:
                roots.setdefault(d.table[k], set()).add(k)
    if not all(any(k in ks for ks in roots.values()) for k in ("const", "enum", "uniqueItems")):
        raise AnalysisError("const/enum/uniqueItems not all bound")
    helpers = set()
    todo = list(roots)
    while todo:
        f = todo.pop()
        for g in calls.successors(f):
            if g.cls is None and g.mod.name == "_utils" and g not in helpers and g not in roots:
                helpers.add(g)
                todo.append(g)
    return roots, helpers


def find_normaliser(prog, roots, helpers):
    """The normaliser: the helper reachable from const/enum/uniqueItems that tests its first parameter for identity
    with True and with False.  Returns (None, N)."""
    cands = []
    for h in helpers:
        if not h.params:
            continue
        p = h.params[0]
        tests = {norm(n) for n in walk_body(h) if isinstance(n, ast.Compare)}
        if ("%s is True" % p in tests or "%s == True" % p in tests) and ("%s is False" % p in tests or "%s == False" % p in tests):
            cands.append(h)
    if len(cands) != 1:
        # not spelt with `is True` / `is False` (e.g. `type(x) is bool`): the helper that *behaves* as the normaliser --
        # true and false go to two distinct private objects, everything else comes back untouched
        sem = []
        for h in sorted(helpers, key=lambda x: x.qual):
            req = len(h.params) - len(getattr(h.node.args, "defaults", []))
            if req != 1:
                continue
            try:
                res = normaliser_eval(prog, h)
            except Exception:
                res = None
            if res is not None and res.get("bool-cases", "x") is None and res.get("converts-value", "x") is None and "raises" not in res:
                sem.append(h)
        if len(sem) == 1:
            return None, sem[0]
        return None, None
    return None, cands[0]


class Classifier:
    """Classify expressions as 'norm' (went through the normaliser), 'normseq' (a container/iterator of such),
    'raw' (data derived from instance/keyword value untouched), 'rawseq', 'lit', 'other'.
    Names are resolved flow-sensitively through reaching definitions on the CFG."""

    def __init__(self, prog, f, N, equal, data_params):
        from ..cfg import reaching_defs
        self.prog = prog
        self.calls = calls_of(prog)
        self.f = f
        self.N = N
        self.equal = equal
        self.data = set(data_params)
        self.cfg = cfg_of(f)
        self.rd = reaching_defs(self.cfg)
        self.node_of = {}
        for n in self.cfg.live:
            for e in node_exprs(n):
                for sub in walk_expr(e):
                    self.node_of.setdefault(id(sub), n)
            if n.ast is not None:
                self.node_of.setdefault(id(n.ast), n)
        # what is appended/added to each local container, anywhere
        self.appended = {}
        for n in self.cfg.live:
            for e in node_exprs(n):
                for c in walk_expr(e):
                    if isinstance(c, ast.Call) and isinstance(c.func, ast.Attribute) and c.func.attr in ("append", "add") and \
                            isinstance(c.func.value, ast.Name) and c.args:
                        self.appended.setdefault(c.func.value.id, []).append((c.args[0], n))
        self.local = {}
        self._busy = set()
        self.param_cls = {}     # parameter -> class, when every call site passes a value of a known class (helpers)

    @staticmethod
    def _seq(c):
        return {"norm": "normseq", "raw": "rawseq", "lit": "otherseq"}.get(c, "otherseq" if not c.endswith("seq") else c)

    @staticmethod
    def _elem(c):
        return {"normseq": "norm", "rawseq": "raw", "raw": "raw", "emptyseq": "other", "otherseq": "other"}.get(c, c)

    @staticmethod
    def _join(cs):
        cs = {c for c in cs if c not in ("emptyseq",)} or {"emptyseq"}
        if len(cs) == 1:
            return cs.pop()
        if cs & {"raw", "rawseq"}:
            return "raw" if "raw" in cs else "rawseq"
        if cs <= {"normseq", "emptyseq"}:
            return "normseq"
        return "mixed"

    def name_cls(self, name, node):
        if name in self.local:
            return self.local[name]
        key = (name, node.id)
        if key in self._busy:
            return "emptyseq"
        self._busy.add(key)
        try:
            out = []
            for d in self.rd[node.id].get(name, ()):
                dn = self.cfg.nodes[d]
                if dn is self.cfg.entry:
                    out.append(self.param_cls.get(name, "raw") if name in self.data else "other")
                elif dn.kind == "stmt" and isinstance(dn.ast, ast.Assign):
                    tg = dn.ast.targets[0]
                    if isinstance(tg, ast.Name):
                        out.append(self.cls(dn.ast.value, dn))
                    else:
                        out.append("other")
                elif dn.kind == "for":
                    out.append(self.target_cls(dn.ast.target, dn.ast.iter, name, dn))
                else:
                    out.append("other")
            c = self._join(out) if out else "other"
            if name in self.appended and c.endswith("seq"):
                c = self._join([c] + [self._seq(self.cls(a, an)) for (a, an) in self.appended[name]])
            return c
        finally:
            self._busy.discard(key)

    def target_cls(self, target, it, name, node):
        """class of loop target `name` bound by `for target in it`."""
        if isinstance(target, ast.Name):
            return self._elem(self.cls(it, node))
        if isinstance(target, (ast.Tuple, ast.List)):
            if isinstance(it, ast.Call) and norm(it.func) == "zip" and len(it.args) == len(target.elts):
                for t, a in zip(target.elts, it.args):
                    if isinstance(t, ast.Name) and t.id == name:
                        return self._elem(self.cls(a, node))
            if isinstance(it, ast.Call) and isinstance(it.func, ast.Attribute) and it.func.attr == "items" and not it.args and len(target.elts) == 2:
                if isinstance(target.elts[0], ast.Name) and target.elts[0].id == name:
                    return "key"        # an object's member name: always a string, on which the normaliser is the identity
                return self._elem(self.cls(it.func.value, node))
            if isinstance(it, ast.Call) and norm(it.func) == "enumerate" and len(target.elts) == 2:
                if isinstance(target.elts[0], ast.Name) and target.elts[0].id == name:
                    return "other"
                return self._elem(self.cls(it.args[0], node))
            return self._elem(self.cls(it, node))
        return "other"

    def cls_at(self, e, parents):
        """cls(e) for an expression that may sit inside comprehensions: their targets are bound first (outermost first)."""
        comps = []
        cur = parents.get(id(e))
        while cur is not None:
            if isinstance(cur, (ast.GeneratorExp, ast.ListComp, ast.SetComp, ast.DictComp)):
                comps.append(cur)
            cur = parents.get(id(cur))
        if not comps:
            return self.cls(e)
        node = self.node_of.get(id(comps[-1]), self.cfg.entry)
        saved = dict(self.local)
        try:
            for comp in reversed(comps):
                for g in comp.generators:
                    for nm in [x.id for x in ast.walk(g.target) if isinstance(x, ast.Name)]:
                        self.local[nm] = self.target_cls(g.target, g.iter, nm, node)
            return self.cls(e, node)
        finally:
            self.local = saved

    def cls(self, e, node=None):
        if node is None:
            node = self.node_of.get(id(e), self.cfg.entry)
        if isinstance(e, ast.Constant):
            return "lit"
        if isinstance(e, ast.Name):
            return self.name_cls(e.id, node)
        if isinstance(e, (ast.List, ast.Tuple, ast.Set)):
            if not e.elts:
                return "emptyseq"
            cs = {self.cls(x, node) for x in e.elts}
            return "normseq" if cs == {"norm"} else ("rawseq" if "raw" in cs else "otherseq")
        if isinstance(e, (ast.GeneratorExp, ast.ListComp, ast.SetComp)):
            saved = dict(self.local)
            for g in e.generators:
                names = [x.id for x in ast.walk(g.target) if isinstance(x, ast.Name)]
                for nm in names:
                    self.local[nm] = self.target_cls(g.target, g.iter, nm, node)
            c = self.cls(e.elt, node)
            self.local = saved
            return self._seq(c)
        if isinstance(e, ast.Subscript):
            return self._elem(self.cls(e.value, node)) if not isinstance(e.slice, ast.Slice) else self.cls(e.value, node)
        if isinstance(e, ast.Call):
            tg = self.calls.callee(self.f, e)
            for t in tg:
                if t.kind == "func" and t.func is self.N:
                    return "norm"
                if t.kind == "func" and t.func is not self.N and t.func.mod.name == "_utils":
                    return "other"
                if t.kind == "builtin" and t.name in ("len", "any", "all", "isinstance", "repr", "str", "bool", "id", "hash", "int", "float"):
                    return "other"
                if (t.kind == "builtin" and t.name in ("sorted", "set", "list", "tuple", "iter", "reversed", "frozenset")) or \
                        (t.kind == "ext" and t.name.split(".")[-1] in ("islice", "chain", "tee")):
                    return self._seq(self._elem(self.cls(e.args[0], node))) if e.args else "emptyseq"
                if t.kind == "builtin" and t.name == "next" and e.args:
                    return self._elem(self.cls(e.args[0], node))
            if isinstance(e.func, ast.Attribute) and e.func.attr in ("items", "values", "keys", "copy"):
                return self.cls(e.func.value, node)
            return "other"
        return "other"


def data_params_of(prog, f, roots, helpers, callers_info):
    calls = calls_of(prog)
    if f in roots:
        return [p for p, r in calls.roles(f).items() if r in ("instance", "value")]
    # helper: a parameter is data when some caller passes data (raw) for it
    return callers_info.get(f, list(f.params))


def rule_one_relation(ctx, roots, helpers, equal, N, rid="R8.1"):
    prog = ctx.prog
    calls = calls_of(prog)
    r = ctx.rule(rid, "every equality-like operation between instance-derived and schema-derived data has both sides passed through the one normaliser", floor=6)
    funcs = list(roots) + [h for h in helpers if h is not N]
    classifiers = {}

    def classifier(f, depth=0):
        """Classifier of f; a helper's parameters get the join of what its call sites (in the functions analysed) pass."""
        if f in classifiers:
            return classifiers[f]
        dps = [p for p, ro in calls.roles(f).items() if ro in ("instance", "value")] if f in roots else list(f.params)
        C = Classifier(prog, f, N, equal, dps)
        classifiers[f] = C
        if f not in roots and depth < 4:
            seen_cls = {}
            for g in funcs:
                if g is f:
                    continue
                for n in walk_body(g):
                    if isinstance(n, ast.Call) and any(t.kind == "func" and t.func is f for t in calls.callee(g, n)):
                        Cg = classifier(g, depth + 1)
                        for i, a in enumerate(n.args):
                            if i < len(f.params):
                                seen_cls.setdefault(f.params[i], []).append(Cg.cls(a))
            for p, cs in seen_cls.items():
                j = Classifier._join(cs)
                if j in ("norm", "normseq", "emptyseq"):
                    C.param_cls[p] = j
        return C
    for f in sorted(funcs, key=lambda x: x.qual):
        dps = [p for p, ro in calls.roles(f).items() if ro in ("instance", "value")] if f in roots else list(f.params)
        C = classifier(f)
        n_here = 0
        parents = {}
        for st in f.body:
            for a in ast.walk(st):
                for ch in ast.iter_child_nodes(a):
                    parents[id(ch)] = a
        for n in walk_body(f):
            if isinstance(n, ast.Compare) and any(isinstance(o, (ast.Eq, ast.NotEq, ast.In, ast.NotIn)) for o in n.ops):
                ops = [n.left] + list(n.comparators)
                cs = [C.cls_at(x, parents) for x in ops]
                where = site(f, n)
                key = "%s|%s" % (f.qual, norm(n)[:70])
                n_here += 1
                if "lit" in cs:
                    if any(c in ("raw", "rawseq") for c in cs):
                        # a data value compared with a literal: only acceptable to steer control, never as the verdict of equality
                        r.fail(key + "|literal-special-case", where,
                               "`%s` special-cases a data value against a literal: the relation is no longer the single normalised one (and is shallow)" % norm(n))
                    else:
                        r.ok(where, "%s: literal comparison on non-data" % norm(n))
                    continue
                if "key" in cs:
                    r.ok(where, "%s: a member name (string) looked up in a container" % norm(n))
                    continue
                if all(c == "other" for c in cs):
                    r.ok(where, "%s: not on data (%s)" % (norm(n), cs))
                    continue
                is_in = isinstance(n.ops[0], (ast.In, ast.NotIn))
                good = (cs == ["norm", "norm"]) if not is_in else (cs[0] == "norm" and cs[1] in ("normseq", "emptyseq"))
                if good:
                    r.ok(where, "%s: both sides normalised" % norm(n))
                elif not is_in and _type_guarded(C, n, ops, cs, parents):
                    r.ok(where, "%s: under a type test that leaves only values on which the normaliser is the identity" % norm(n))
                else:
                    r.fail(key + "|raw-comparison", where,
                           "`%s` relates data without the normaliser on both sides (%s): booleans and numbers are conflated, at top level or inside containers" % (norm(n), cs))
            elif isinstance(n, ast.Call):
                tg = calls.callee(f, n)
                for t in tg:
                    if t.kind == "builtin" and t.name in ("set", "sorted", "frozenset") and n.args:
                        c = C.cls(n.args[0])
                        n_here += 1
                        if c in ("normseq", "emptyseq"):
                            r.ok(site(f, n), "%s over normalised elements" % t.name)
                        elif c in ("rawseq", "raw"):
                            r.fail("%s|%s-of-raw|%s" % (f.qual, t.name, norm(n)[:60]), site(f, n),
                                   "%s(...) deduplicates/orders raw data: `%s` -- True and 1 collapse" % (t.name, norm(n)[:80]))
                    if t.kind == "func" and t.func in helpers and t.func is not N:
                        n_here += 1
                        r.ok(site(f, n), "delegates to %s (checked on its own)" % t.func.qual)
        if f in roots and n_here == 0:
            r.fail("%s|no-comparison" % f.qual, site(f), "keyword function for %s performs no recognisable equality operation" % sorted(roots[f]))
    # uniqueItems must go through the helper that uses the normaliser
    return r


_EXACT_SCALARS = ("str", "int", "float", "type(None)", "NoneType")


_PRED_CACHE = {}


def _holds_only_for_plain_scalars(prog, pred):
    """Is `pred` a package function that answers True for no value the normaliser would change or look into -- no bool, no list, no
    dict, no instance of a subclass of those -- and True for at least the exact str / int / float / None?  Evaluated by sa/tokeval.py."""
    from ..prog import Func
    if not isinstance(pred, Func) or len(pred.params) != 1:
        return False
    if pred.qual in _PRED_CACHE:
        return _PRED_CACHE[pred.qual]
    from ..tokeval import Ev, Undecided, PyRaise
    from collections import OrderedDict

    class _L(list):
        pass

    class _D(dict):
        pass

    class _I(int):
        pass

    class _S(str):
        pass
    never = [True, False, [], {}, [True], {"a": False}, _L(), _D(), OrderedDict(), (), (True,), _L([1])]
    always = ["", "s", 0, 1, -7, 10 ** 30, 0.0, 1.5, None]
    ok = True
    try:
        for v in never:
            if Ev(prog, fuel=3000).call_func(pred, [v], {}):
                ok = False
        for v in always:
            if not Ev(prog, fuel=3000).call_func(pred, [v], {}):
                ok = False
        # subclasses of the scalars may be let through or not: a str/int subclass instance is still no boolean and no container
        for v in (_I(3), _S("x")):
            Ev(prog, fuel=3000).call_func(pred, [v], {})
    except (Undecided, PyRaise, RecursionError):
        ok = False
    _PRED_CACHE[pred.qual] = ok
    return ok


def _type_guarded(C, cmp, ops, cs, parents):
    """`a == b` sits in the true branch of a test that pins the un-normalised operands to exact scalar types (`type(a) is str`,
    also `isinstance(a, str)`: no string is a boolean or a container), the names not rebound in between.  The normaliser
    hands such values back untouched (R8.2 checks that), so the raw comparison *is* the normalised one.  One operand known to
    be a string is enough: a string equals nothing but a string, with or without the normaliser."""
    facts = {}
    cur, child = parents.get(id(cmp)), cmp
    while cur is not None:
        test = None
        if isinstance(cur, ast.If) and any(child is s for s in cur.body):
            test = cur.test
        elif isinstance(cur, ast.IfExp) and child is cur.body:
            test = cur.test
        elif isinstance(cur, ast.BoolOp) and isinstance(cur.op, ast.And) and child in cur.values:
            for v in cur.values[:cur.values.index(child)]:
                _type_facts(v, facts, C, cmp)
        if test is not None:
            _type_facts(test, facts, C, cmp)
        cur, child = parents.get(id(cur)), cur
    names = [o.id if isinstance(o, ast.Name) else None for o in ops]
    if any(nm is not None and facts.get(nm) == "str" for nm in names):
        return True
    return all(c == "norm" or (nm is not None and nm in facts) for nm, c in zip(names, cs))


def _type_facts(test, facts, C, at):
    conj = test.values if isinstance(test, ast.BoolOp) and isinstance(test.op, ast.And) else [test]
    for t in conj:
        nm = ty = None
        if isinstance(t, ast.Compare) and len(t.ops) == 1 and isinstance(t.ops[0], (ast.Is, ast.Eq)) and \
                isinstance(t.left, ast.Call) and norm(t.left.func) == "type" and len(t.left.args) == 1 and isinstance(t.left.args[0], ast.Name):
            nm, ty = t.left.args[0].id, norm(t.comparators[0])
        elif isinstance(t, ast.Call) and norm(t.func) == "isinstance" and len(t.args) == 2 and isinstance(t.args[0], ast.Name) and norm(t.args[1]) == "str":
            nm, ty = t.args[0].id, "str"
        if nm is None and isinstance(t, ast.Call) and isinstance(t.func, ast.Name) and len(t.args) == 1 and isinstance(t.args[0], ast.Name) and not t.keywords:
            # a package predicate that holds only for exact plain scalars (`_is_plain_scalar(x)`): decided by evaluating it
            pred = C.prog.resolve_name(C.f.mod, t.func.id, C.f)
            if _holds_only_for_plain_scalars(C.prog, pred):
                nm, ty = t.args[0].id, "int"
        if nm is None or ty not in _EXACT_SCALARS:
            continue
        # same binding at the test and at the comparison
        n_test, n_cmp = C.node_of.get(id(t)), C.node_of.get(id(at))
        if n_test is None or n_cmp is None or C.rd[n_test.id].get(nm) != C.rd[n_cmp.id].get(nm):
            continue
        facts[nm] = ty


def normaliser_eval(prog, N):
    """The normaliser evaluated by sa/tokeval.py on true, false, scalars (which it may only hand back untouched) and containers
    two levels deep.  -> {clause: None (holds) | message}, or None when outside the evaluated fragment."""
    from ..tokeval import Ev, Tok, Undecided, PyRaise
    ev = Ev(prog, fuel=20000)

    def run(v):
        return ev.call_func(N, [v], {})
    out = {}
    try:
        A, B = run(True), run(False)
        A2, B2 = run(True), run(False)
        plain = (bool, int, float, str, type(None), list, dict, tuple)
        if A is not A2 or B is not B2:
            out["sentinels"] = "the stand-ins for true/false change from call to call: two normalised trues would not be equal"
        elif A is B or isinstance(A, plain) or isinstance(B, plain) or A == B:
            out["bool-cases"] = "true and false are not mapped to two distinct private stand-ins (true -> %r, false -> %r)" % (A, B)
        else:
            out["bool-cases"] = None
        scalars = [0, 1, -7, 2 ** 60 + 1, 0.0, 1.0, 2.5, "", "s", "1", None, Tok("opaque", ("number",))]
        for v in scalars:
            try:
                res = run(v)
            except PyRaise as pr:
                out["converts-value"] = "raises %s on %r" % (pr.name, v)
                break
            if res is not v:
                out["converts-value"] = "%r comes back as %r: values other than true/false must be returned unchanged" % (v, res)
                break
        else:
            out["converts-value"] = None
        t = Tok("t", ("string",))
        import itertools
        out["shallow-list"] = out["shallow-dict"] = None
        # every nesting of arrays and objects up to three levels around a boolean leaf, bare and with a scalar sibling at each level
        for depth in (1, 2, 3):
            for shape in itertools.product("LD", repeat=depth):
                for sib in (False, True):
                    for leaf, stand in ((True, A), (False, B)):
                        def build(x):
                            v = x
                            for c in reversed(shape):
                                if c == "L":
                                    v = [v, 7, t] if sib else [v]
                                else:
                                    v = {"k": v, "n": 7, "s": t} if sib else {"k": v}
                            return v
                        got, want = run(build(leaf)), build(stand)
                        if not _same(got, want):
                            clause = "shallow-list" if shape[-1] == "L" or "D" not in shape else "shallow-dict"
                            if out[clause] is None:
                                out[clause] = "%s: %r is normalised to %r -- a boolean inside keeps comparing equal to 0/1" % (
                                    "arrays are not rebuilt at every depth" if clause == "shallow-list" else "object values are not rebuilt at every depth",
                                    build(leaf), got)
    except Undecided:
        return None
    except PyRaise as pr:
        out["raises"] = "raises %s" % pr.name
    return out


def _same(a, b):
    if isinstance(b, list):
        return isinstance(a, list) and len(a) == len(b) and all(_same(x, y) for x, y in zip(a, b))
    if isinstance(b, dict):
        return isinstance(a, dict) and set(a) == set(b) and all(_same(a[k], b[k]) for k in b)
    if isinstance(b, (bool, int, float, str, type(None))):
        return type(a) is type(b) and a == b
    return a is b


def rule_normaliser(ctx, N, rid2="R8.2", rid3="R8.3"):
    prog = ctx.prog
    r2 = ctx.rule(rid2, "the normaliser maps true and false (by identity) to two distinct private objects and leaves numbers alone", floor=3)
    r3 = ctx.rule(rid3, "the relation applies at every depth: the normaliser rebuilds arrays and object values recursively", floor=2)
    sem = normaliser_eval(prog, N)
    if sem is not None:
        # decided by abstract evaluation of the function body (any control-flow shape); the shape rules below are the fallback
        for clause, rule in (("bool-cases", r2), ("sentinels", r2), ("converts-value", r2), ("raises", r2), ("shallow-list", r3), ("shallow-dict", r3)):
            if clause not in sem:
                continue
            if sem[clause] is None:
                rule.ok(site(N) + " [%s]" % clause, "holds on the evaluated table (true/false, scalars returned untouched, containers two levels deep)")
            else:
                rule.fail("%s|%s" % (N.qual, clause), site(N), sem[clause])
        # identity, not equality: `x == True` also catches the number 1 -- visible in the table as 1 coming back changed
        r2.ok(site(N), "booleans recognised without catching 0/1 (1 and 0 come back unchanged)") if sem.get("converts-value") is None else None
        return r2, r3
    cfg = cfg_of(N)
    p = N.params[0]
    sentinels = [q for q in N.params[1:]]
    a = N.node.args
    defaults = dict(zip([x.arg for x in a.args][-len(a.defaults):], a.defaults)) if a.defaults else {}
    rets = [n for n in cfg.live if n.kind == "return"]

    def guard_of(n):
        """tests whose true edge dominate return n (innermost last)."""
        out = []
        for t in cfg.live:
            if t.kind != "test":
                continue
            # n reachable only via t's true edge?
            seen, todo, leak = set(), [cfg.entry], False
            while todo:
                x = todo.pop()
                if x.id in seen:
                    continue
                seen.add(x.id)
                if x is n:
                    leak = True
                    break
                for (l, y) in x.succ:
                    if x is t and l == "true":
                        continue
                    todo.append(y)
            if not leak:
                out.append(t)
        return out
    cases = {}
    for n in rets:
        gs = guard_of(n)
        g = gs[-1] if gs else None
        cases[norm(g.ast) if g is not None else "<otherwise>"] = n
    tr = cases.get("%s is True" % p)
    fa = cases.get("%s is False" % p)
    ok_t = tr is not None and isinstance(tr.ast.value, ast.Name) and tr.ast.value.id in sentinels
    ok_f = fa is not None and isinstance(fa.ast.value, ast.Name) and fa.ast.value.id in sentinels
    if ok_t and ok_f and tr.ast.value.id != fa.ast.value.id:
        dt, df = defaults.get(tr.ast.value.id), defaults.get(fa.ast.value.id)
        fresh = all(isinstance(d, ast.Call) and norm(d) == "object()" for d in (dt, df))
        if fresh:
            r2.ok(site(N), "True -> %s, False -> %s: two distinct object() sentinels" % (tr.ast.value.id, fa.ast.value.id))
        else:
            r2.fail("%s|sentinels|%s,%s" % (N.qual, norm(dt), norm(df)), site(N),
                    "the stand-ins for true/false are %s and %s, not two private object()s: they can equal a number or each other" % (norm(dt), norm(df)))
    else:
        r2.fail("%s|bool-cases" % N.qual, site(N),
                "the normaliser does not map True and False (tested by identity) to two distinct stand-ins (cases: %s)" % sorted(cases))
    other = cases.get("<otherwise>")
    if other is not None and isinstance(other.ast.value, ast.Name) and other.ast.value.id == p:
        r2.ok(site(N, other.ast), "everything else is returned unchanged (numbers keep Python equality: 1 == 1.0)")
    else:
        r2.fail("%s|default-case" % N.qual, site(N), "values that are neither booleans nor containers are not returned unchanged")
    # every other way out of the normaliser must be one of the recognised shapes
    for n in rets:
        v = n.ast.value
        shape_ok = (
            (isinstance(v, ast.Name) and (v.id in sentinels or v.id == p)) or
            (isinstance(v, (ast.ListComp, ast.DictComp)) and any(isinstance(c, ast.Call) and isinstance(c.func, ast.Name) and c.func.id == N.name for c in ast.walk(v)))
        )
        if not shape_ok:
            r2.fail("%s|converts-value|%s" % (N.qual, norm(v)[:40]), site(N, n.ast),
                    "the normaliser returns `%s`: values other than true/false must come back unchanged (a conversion such as float() "
                    "collapses distinct integers beyond 2**53, so unequal numbers compare equal)" % norm(v)[:60])
    # identity tests, not equality
    eqtests = [t for t in cfg.live if t.kind == "test" and isinstance(t.ast, ast.Compare) and isinstance(t.ast.ops[0], (ast.Eq, ast.NotEq))]
    if eqtests:
        r2.fail("%s|equality-test|%s" % (N.qual, norm(eqtests[0].ast)), site(N, eqtests[0].ast), "`%s` also catches the numbers 0/1" % norm(eqtests[0].ast))
    else:
        r2.ok(site(N), "booleans recognised by identity (`is`), not by ==")
    # R8.3
    def rec_call(e):
        return isinstance(e, ast.Call) and isinstance(e.func, ast.Name) and e.func.id == N.name
    lst = cases.get("isinstance(%s, list)" % p) or cases.get("isinstance(%s, (list, tuple))" % p)
    dct = cases.get("isinstance(%s, dict)" % p)
    ok_l = lst is not None and isinstance(lst.ast.value, ast.ListComp) and rec_call(lst.ast.value.elt) and norm(lst.ast.value.generators[0].iter) == p \
        and not lst.ast.value.generators[0].ifs and norm(lst.ast.value.elt.args[0]) == norm(lst.ast.value.generators[0].target)
    ok_d = dct is not None and isinstance(dct.ast.value, ast.DictComp) and rec_call(dct.ast.value.value) and norm(dct.ast.value.generators[0].iter) == "%s.items()" % p \
        and not dct.ast.value.generators[0].ifs
    if ok_l:
        r3.ok(site(N, lst.ast), "arrays: %s" % norm(lst.ast.value))
    else:
        r3.fail("%s|shallow-list" % N.qual, site(N), "the normaliser does not rebuild arrays element by element: [0] equals [false] (upstream issue 686)")
    if ok_d:
        # key kept, value normalised
        dc = dct.ast.value
        kv_ok = isinstance(dc.generators[0].target, ast.Tuple) and norm(dc.key) == norm(dc.generators[0].target.elts[0]) and \
            norm(dc.value.args[0]) == norm(dc.generators[0].target.elts[1])
        if kv_ok:
            r3.ok(site(N, dct.ast), "objects: %s" % norm(dc))
        else:
            r3.fail("%s|dict-rebuild" % N.qual, site(N, dct.ast), "object values are not normalised under their own keys: %s" % norm(dc))
    else:
        r3.fail("%s|shallow-dict" % N.qual, site(N), "the normaliser does not rebuild object values: {\"a\": false} equals {\"a\": 0}")
    # recursive calls pass the same sentinels along (or rely on the shared defaults)
    for n in walk_body(N):
        if rec_call(n) and len(n.args) not in (1, 3):
            r3.fail("%s|recursive-args" % N.qual, site(N, n), "recursive call passes %d arguments" % len(n.args))
        if rec_call(n) and len(n.args) == 3 and [norm(x) for x in n.args[1:]] != sentinels:
            r3.fail("%s|recursive-sentinels" % N.qual, site(N, n), "recursive call does not pass the same stand-ins: %s" % norm(n))
    return r2, r3


def rule_memberwise(ctx, roots, helpers, N, rid="R8.4"):
    """Where the relation is computed member by member (rather than by == on normalised containers) it must still be JSON
    equality: a member that is *absent* on one side is not a member whose value is null, and the shorter of two arrays
    is not equal to the longer one's prefix."""
    prog = ctx.prog
    calls = calls_of(prog)
    r = ctx.rule(rid, "member-wise comparison never substitutes a JSON value for an absent member and never truncates (get-with-default, zip)", floor=3)
    funcs = list(roots) + [h for h in helpers]
    for f in sorted(funcs, key=lambda x: x.qual):
        dps = [p for p, ro in calls.roles(f).items() if ro in ("instance", "value")] if f in roots else list(f.params)
        C = Classifier(prog, f, N, None, dps)
        compares = [n for n in walk_body(f) if isinstance(n, ast.Compare)]
        keyset_eq = any(isinstance(c.ops[0], (ast.Eq, ast.NotEq)) and all(
            isinstance(x, ast.Call) and (norm(x.func) in ("set", "sorted", "frozenset", "list") or (isinstance(x.func, ast.Attribute) and x.func.attr == "keys"))
            for x in [c.left, c.comparators[0]]) for c in compares if len(c.ops) == 1)
        n_here = 0
        for n in walk_body(f):
            if not isinstance(n, ast.Call):
                continue
            if isinstance(n.func, ast.Attribute) and n.func.attr == "get" and n.args and C.cls(n.func.value) in ("raw", "rawseq"):
                n_here += 1
                dflt = n.args[1] if len(n.args) > 1 else next((k.value for k in n.keywords if k.arg == "default"), None)
                guarded = any(len(c.ops) == 1 and isinstance(c.ops[0], (ast.In, ast.NotIn)) and norm(c.left) == norm(n.args[0])
                              and norm(c.comparators[0]) == norm(n.func.value) for c in compares)
                if dflt is not None and not isinstance(dflt, ast.Constant):
                    r.ok(site(f, n), "%s: the default is not a JSON literal" % norm(n)[:50])
                elif guarded or keyset_eq:
                    r.ok(site(f, n), "%s: presence of the key is tested" % norm(n)[:50])
                else:
                    r.fail("%s|absent-member-as-json-value|%s" % (f.qual, norm(n)[:50]), site(f, n),
                           "`%s` yields %s for an absent member and nothing tests the key's presence: {\"a\": null} and {\"b\": null} "
                           "(same size, different keys) compare equal" % (norm(n)[:60], norm(dflt) if dflt is not None else "None"))
            elif isinstance(n.func, ast.Name) and n.func.id == "zip" and len(n.args) >= 2 and all(isinstance(a, ast.Name) and a.id in dps for a in n.args) \
                    and len({a.id for a in n.args}) > 1:
                n_here += 1
                names = {a.id for a in n.args}
                lens = any(len(c.ops) == 1 and isinstance(c.ops[0], (ast.Eq, ast.NotEq)) and
                           {norm(x) for x in (c.left, c.comparators[0])} == {"len(%s)" % a for a in names} for c in compares) if len(names) == 2 else False
                if lens:
                    r.ok(site(f, n), "%s with the lengths compared" % norm(n)[:50])
                else:
                    r.fail("%s|zip-truncates|%s" % (f.qual, norm(n)[:50]), site(f, n),
                           "`%s` pairs two data arrays without comparing their lengths: [1] equals [1, 2]" % norm(n)[:60])
        if n_here == 0:
            r.ok(site(f), "no member-wise lookup or pairing of two data values")
    return r


def _json_values():
    """Representatives of every JSON kind, of every relation the property names (true<->1, false<->0, 1<->1.0, 2**53 vs 2**53+1,
    key order, element order) at depth 0-2, and of the Python carriers the library itself accepts as arrays/objects (dict and list
    subclasses: what json.loads(object_pairs_hook=OrderedDict) produces)."""
    from collections import OrderedDict

    class L(list):
        pass
    scal = [None, True, False, 0, 1, 0.0, 1.0, 1.5, 2 ** 53, 2 ** 53 + 1, float(2 ** 53), "", "a", "1", "True"]
    vals = list(scal)
    for s_ in (True, 1, 1.0, False, 0, "a", None):
        vals += [[s_], [[s_]], {"a": s_}, {"a": [s_]}, {"a": {"b": s_}}, [{"a": s_}]]
    vals += [[], {}, [1, 2], [2, 1], {"a": 1, "b": 2}, {"b": 2, "a": 1}, {"a": 1}, {"b": 1}, {"a": None}, {"b": None}, [1], [1, 1],
             OrderedDict([("a", 1), ("b", 2)]), OrderedDict([("b", 2), ("a", 1)]), OrderedDict([("a", True)]), L([True]), L([1]), [L([False])], {"a": OrderedDict([("b", True)])}]
    return vals


def _json_equal(a, b):
    """JSON equality as the property states it (reference, independent of the code)."""
    if isinstance(a, bool) or isinstance(b, bool):
        return isinstance(a, bool) and isinstance(b, bool) and a == b
    if isinstance(a, (int, float)) and isinstance(b, (int, float)):
        return a == b
    if isinstance(a, str) and isinstance(b, str):
        return a == b
    if a is None or b is None:
        return a is None and b is None
    if isinstance(a, list) and isinstance(b, list):
        return len(a) == len(b) and all(_json_equal(x, y) for x, y in zip(a, b))
    if isinstance(a, dict) and isinstance(b, dict):
        return set(a) == set(b) and all(_json_equal(a[k], b[k]) for k in a)
    return False


_EXTRA_PAIRS = [
    ({"a": 1}, [["a"], [1]]), ({"a": 1}, [["a", 1]]), ({"a": 1}, ["a", 1]), ({"a": 1}, [("a",), (1,)][0:0] or [["a"], 1]), ({}, []), ([], ""), ({}, ""), ({"a": [1]}, [["a"], [[1]]]),
    ({"a": 1, "b": 2}, [["a", "b"], [1, 2]]), ({"a/b": True, "a": {"b": 1}}, {"a/b": 1, "a": {"b": True}}), ({"a.b": 0, "a": {"b": False}}, {"a.b": False, "a": {"b": 0}}),
    ({"1": 0}, [0]), ({"0": "x"}, ["x"]), ("1", 1), ("true", True), ("null", None), ([1, 2], "12"), ([1, 2], "[1, 2]"), ({"a": 1}, '{"a": 1}'), ([[1], [2]], [[1, 2]]),
    ([1, [2]], [[1], 2]), ({"a": {"b": 1}}, {"a": [["b"], [1]]}), ([None], []), ([[]], []), ([{}], [[]]), ({"a": None}, {}), ({"a": []}, {"a": {}}),
    # strings are equal when their code points are: no Unicode normalisation, case folding or compatibility mapping
    ("caf\u00e9", "cafe\u0301"), ("\u2126", "\u03a9"), ("\uff21", "A"), ("\u00df", "ss"), ("I", "\u0131"), ("a", "A"), ("\ufb01", "fi"), ("1", "\u0661"), (" a", "a"), ("a\u200b", "a"),
    (["caf\u00e9"], ["cafe\u0301"]), ({"caf\u00e9": 1}, {"cafe\u0301": 1}), ({"k": "\u2126"}, {"k": "\u03a9"}),
    # numbers are equal when they are the same number: nothing is rounded, and zero has one value
    (0.30000000000000004, 0.3), (1.0000000000000002, 1), (1.0000000000000002, 1.0), (0.1 + 0.2, 0.3), (1e-320, 0), (5e-324, 0.0), (2.0 ** 53 + 2, 2 ** 53 + 1), (1e16 + 2, 10 ** 16 + 1),
]
_LONG_PAIRS = [
    (1, 1.0), (1, True), (0, False), (0, -0.0), (0.0, False), ("a", "a"), ("a", "b"), ([1], [1.0]), ([1], [True]), ({"id": 1}, {"id": 1.0}), ({"id": 1}, {"id": True}),
    ({"id": 0}, {"id": False}), ({"a": 1, "b": 2}, {"b": 2, "a": 1}), ([[0]], [[False]]), (None, None), (2 ** 53, 2.0 ** 53), (100, 1e2), (10 ** 30, 1e30),
    ({"k": [1, {"z": 0}]}, {"k": [1, {"z": False}]}), ({"k": [1, {"z": 0}]}, {"k": [1, {"z": 0.0}]}), (1, 2), ([1, 2], [2, 1]), ({"a": 1}, {"a": 2}), ({"a": 1}, [["a"], [1]]),
    (True, True), (False, 0.0), ("1", 1), ([], {}), ([True], [1.0]),
]


def rule_relation_table(ctx, roots, rid="R8.5"):
    """const, enum and uniqueItems evaluated (sa/tokeval.py) on every pair of a table of JSON values against the reference relation;
    and on each other: const c accepts x iff enum [c] does iff uniqueItems rejects [c, x]."""
    from ..tokeval import Ev, ValidatorStub, Undecided, PyRaise
    prog = ctx.prog
    r = ctx.rule(rid, "const, enum and uniqueItems decide every pair of the value table as JSON equality does, and agree with each other", floor=3)
    vals = _json_values()
    by_kw = {}
    for f, ks in roots.items():
        for k in ks:
            by_kw[k] = f

    ev = Ev(prog, fuel=10 ** 9)
    stub = ValidatorStub({})

    def errors(kw, value, instance):
        f = by_kw[kw]
        res = ev.call_func(f, [stub, value, instance, {kw: value}], {})
        return len(list(res)) if res is not None else 0

    def skeleton(v):
        if isinstance(v, list):
            return ("L",) + tuple(skeleton(x) for x in v[:1])
        if isinstance(v, dict):
            return ("D",) + tuple(skeleton(x) for x in list(v.values())[:1])
        return "s"
    thorough = ctx.tier == "thorough"
    bad = {}
    try:
        n = 0
        for a in vals:
            for b in vals:
                # quick tier: pairs of the same nesting skeleton (where all the interesting near-misses are) and scalar/container
                # pairs with a scalar from a short list; thorough tier: the full square
                if not thorough and skeleton(a) != skeleton(b) and not (skeleton(a) == "s" and a in (None, True, 0, 1, "a") and not isinstance(a, float)
                                                                       or skeleton(b) == "s" and b in (None, True, 0, 1, "a") and not isinstance(b, float)):
                    continue
                n += 1
                want = _json_equal(a, b)
                got = {}
                if "const" in by_kw:
                    got["const"] = errors("const", a, b) == 0
                got["enum"] = errors("enum", [a], b) == 0
                got["uniqueItems"] = errors("uniqueItems", True, [a, b]) > 0
                for kw, g in got.items():
                    if g != want and kw not in bad:
                        bad[kw] = "%s treats %r and %r as %s; as JSON values they are %s" % (kw, a, b, "equal" if g else "different", "equal" if want else "different")
        # values of different kinds that a canonical form might confuse (an object and an array spelling out its keys and values,
        # keys that look like paths), in both orders, whatever the tier
        for a, b in _EXTRA_PAIRS:
            for x, y in ((a, b), (b, a)):
                n += 1
                want = _json_equal(x, y)
                got = {"enum": errors("enum", [x], y) == 0, "uniqueItems": errors("uniqueItems", True, [x, y]) > 0}
                if "const" in by_kw:
                    got["const"] = errors("const", x, y) == 0
                for kw, g in got.items():
                    if g != want and kw not in bad:
                        bad[kw] = "%s treats %r and %r as %s; as JSON values they are %s" % (kw, x, y, "equal" if g else "different", "equal" if want else "different")
        # uniqueItems on short arrays of mixed kinds: the pair on either side of elements that can be neither hashed nor sorted
        for a, b in _LONG_PAIRS:
            want = _json_equal(a, b)
            for arr in ([a, {"pad": 0}, b], [a, [0], None, b], [{"pad": 0}, a, "s", b], [a, b, {"pad": 0}], [[0], {"p": 1}, a, 2.5, b, None]):
                n += 1
                g = errors("uniqueItems", True, arr) > 0
                if g != want and "uniqueItems" not in bad:
                    bad["uniqueItems"] = "uniqueItems treats %r and %r as %s in the array %r; as JSON values they are %s" % (
                        a, b, "equal" if g else "different", arr, "equal" if want else "different")
        # one Python object standing at several places of the instance (rows built once and reused) is the same JSON text at each
        row_t, row_o = [True], {"k": [False, 1]}
        for inst, other, want in (([row_t, row_t], [[True], [True]], True), ([row_t, row_t], [[True], [1]], False), ({"a": row_o, "b": row_o}, {"a": {"k": [False, 1]}, "b": {"k": [False, 1]}}, True),
                                  ({"a": row_o, "b": row_o}, {"a": {"k": [False, 1]}, "b": {"k": [0, 1]}}, False), ([row_t, [row_t, row_t]], [[True], [[True], [1]]], False)):
            n += 1
            got = {"enum": errors("enum", [other], inst) == 0}
            if "const" in by_kw:
                got["const"] = errors("const", other, inst) == 0
            for kw, g in got.items():
                if g != want and kw not in bad:
                    bad[kw] = "%s treats %r (one object used at several places) and %r as %s; as JSON values they are %s" % (kw, inst, other, "equal" if g else "different", "equal" if want else "different")
            n += 1
            g = errors("uniqueItems", True, [inst, other]) > 0
            if g != want and "uniqueItems" not in bad:
                bad["uniqueItems"] = "uniqueItems treats %r (one object used at several places) and %r as %s; as JSON values they are %s" % (inst, other, "equal" if g else "different", "equal" if want else "different")
        # uniqueItems on long arrays: the pair far apart among 70 other, pairwise different elements of one kind (numbers: hashable;
        # one-element arrays: sortable; objects: neither) -- a strategy chosen by length or by element kind decides the same relation
        for a, b in _LONG_PAIRS:
            want = _json_equal(a, b)
            # a long enum: the member that matters is the last of twelve (strings, then numbers before it)
            for pad in (["s%d" % i for i in range(11)], [1000 + i for i in range(11)], [{"pad": i} for i in range(11)]):
                n += 1
                g = errors("enum", pad + [a], b) == 0
                if g != want and "enum" not in bad:
                    bad["enum"] = "enum with %r as the last of twelve members treats the instance %r as %s; as JSON values they are %s" % (
                        a, b, "a member" if g else "no member", "equal" if want else "different")
            for kind, pad in (("numbers", [1000 + i for i in range(70)]), ("arrays", [[1000 + i] for i in range(70)]), ("objects", [{"pad": i} for i in range(70)])):
                arr = pad[:3] + [a] + pad[3:68] + [b] + pad[68:]
                n += 1
                g = errors("uniqueItems", True, arr) > 0
                if g != want and "uniqueItems" not in bad:
                    bad["uniqueItems"] = "uniqueItems treats %r and %r as %s when they are elements 3 and 69 of an array of 72 (the others: distinct %s); as JSON values they are %s" % (
                        a, b, "equal" if g else "different", kind, "equal" if want else "different")
    except Undecided as u:
        for kw in sorted(by_kw):
            r.ok(site(by_kw[kw]) + " [%s]" % kw, "NOT DECIDED: %s" % u)
        r.note(site(next(iter(by_kw.values()))), "equality table not decided: %s" % u)
        return r
    except PyRaise as pr:
        bad["raises"] = "raises %s (%s)" % (pr.name, pr.msg)
    for kw in sorted(by_kw):
        if kw in bad or "raises" in bad:
            r.fail("%s|%s|relation" % (by_kw[kw].qual, kw), site(by_kw[kw]), bad.get(kw) or bad["raises"])
        else:
            r.ok(site(by_kw[kw]) + " [%s]" % kw, "agrees with JSON equality on %d pairs (%d values: scalars, nestings to depth 2, key/element order, dict/list subclasses)" % (n, len(vals)))
    return r


def run(ctx):
    prog = ctx.prog
    ctx.explanation = (
        "C08: R8.1 classifies the operands of every ==, !=, in, not in, set() and sorted() in the functions behind const, enum "
        "and uniqueItems (and their _utils helpers) as normalised / raw data / literal and requires both data operands to have "
        "gone through the one normaliser; R8.2 abstractly evaluates the normaliser's cases (True and False by identity to two "
        "distinct object() stand-ins, everything else unchanged); R8.3 the normaliser rebuilds arrays and object values "
        "recursively, so the relation holds at every depth; R8.4 member-wise code (get with a JSON default, zip of the two operands) keeps absent members and lengths apart. Not decided: that Python == is mathematical equality on int/float "
        "and order-insensitive on dicts (language semantics).")
    ctx.assume("Python == on int/float is exact mathematical comparison; dict equality ignores order; list equality is element-wise")
    roots, helpers = eq_functions(prog)
    equal, N = find_normaliser(prog, roots, helpers)
    if N is None:
        r = ctx.rule("R8.2", "a single normaliser separating booleans from numbers exists", floor=1)
        r.fail("no-normaliser", "jsonschema/_utils.py", "no helper reachable from const/enum/uniqueItems distinguishes True/False by identity: booleans and numbers are conflated")
        return
    # const and enum go through `equal`, uniqueItems through a helper that normalises
    calls = calls_of(prog)
    r0 = ctx.rule("R8.0", "const, enum and uniqueItems are bound to the same functions in every draft that has them", floor=3)
    for k in ("const", "enum", "uniqueItems"):
        fs = {d.table[k] for d in prog.tables.drafts.values() if k in d.table}
        if len(fs) == 1:
            r0.ok("%s -> %s" % (k, list(fs)[0].qual), "one implementation across drafts")
        else:
            r0.fail("table|%s|%s" % (k, sorted(f.qual for f in fs)), "jsonschema/validators.py", "%s is bound to different functions across drafts: %s" % (k, sorted(f.qual for f in fs)))
    rule_one_relation(ctx, roots, helpers, equal, N)
    rule_normaliser(ctx, N)
    rule_memberwise(ctx, roots, helpers, N)
    rule_relation_table(ctx, roots)
    # R8.6: no behaviour changes at a number fixed in the source (sizes, depths, counts, magnitudes are unbounded in the property's domain)
    from . import scope as _scope
    _scope.rule_no_size_thresholds(ctx, 'R8.6', ('_utils', '_validators'), 'equality, its normaliser and uniqueness')
    _scope.rule_no_value_identity(ctx, 'R8.7', ('_utils', '_validators', '_legacy_validators'), 'equality, its normaliser and uniqueness')
    # R8.8: the equality keywords decide on their own value and the instance alone: no sibling keyword (a `type` next to `enum`) narrows the comparison (C08-r6m3)
    from .c10 import rule_read_set
    rule_read_set(ctx, "R8.8")
