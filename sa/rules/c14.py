"""C14 - JSON-Pointer fragments (partial): the decoding pipeline of resolve_fragment as an ordered dataflow."""
import ast
import re._parser as sre_parse

from ..prog import norm, walk_body, AnalysisError
from ..cfg import cfg_of, reaching_defs, node_exprs, walk_expr, handler_names
from ..calls import calls_of
from ..common import find_method, const_of
from ..report import site
from .c02 import only_via_edge


class Alt:
    """One way the value can have been computed: ops applied innermost-first, plus the defining nodes on the way."""

    def __init__(self, ops=(), nodes=()):
        self.ops = tuple(ops)
        self.nodes = tuple(nodes)

    def add(self, op, node=None):
        return Alt(self.ops + (op,), self.nodes + ((node,) if node is not None else ()))

    def __repr__(self):
        return " > ".join(str(o) for o in self.ops) or "<raw>"


class Sym:
    def __init__(self, prog, f):
        self.prog = prog
        self.calls = calls_of(prog)
        self.f = f
        self.cfg = cfg_of(f)
        self.rd = reaching_defs(self.cfg)

    def table_loop(self, dn, name):
        """dn is `name = name.replace(a, b)` inside `for a, b in <constant table of pairs>`: (loop node, [(a, b), ...])."""
        a = dn.ast
        if not (dn.kind == "stmt" and isinstance(a, ast.Assign) and isinstance(a.value, ast.Call) and isinstance(a.value.func, ast.Attribute)
                and a.value.func.attr == "replace" and isinstance(a.value.func.value, ast.Name) and a.value.func.value.id == name
                and len(a.value.args) == 2 and all(isinstance(x, ast.Name) for x in a.value.args)):
            return None
        for L in reversed(dn.loops):
            if L.kind != "for" or not isinstance(L.ast.target, ast.Tuple) or len(L.ast.target.elts) != 2:
                continue
            if [norm(x) for x in L.ast.target.elts] != [norm(x) for x in a.value.args]:
                continue
            it = L.ast.iter
            tbl = it
            if isinstance(it, ast.Name):
                r = self.prog.resolve_name(self.f.mod, it.id, self.f)
                if isinstance(r, tuple) and r[0] == "expr":
                    tbl = r[2]
            if isinstance(tbl, (ast.Tuple, ast.List)) and all(isinstance(x, (ast.Tuple, ast.List)) and len(x.elts) == 2 and
                                                              all(isinstance(y, ast.Constant) for y in x.elts) for x in tbl.elts):
                return L, [(x.elts[0].value, x.elts[1].value) for x in tbl.elts]
        return None

    def name_alts(self, name, node, depth):
        defs = self.rd[node.id].get(name, frozenset())
        out = []
        # a replacement loop over a constant table is unrolled in table order
        handled = set()
        for d in sorted(defs):
            dn = self.cfg.nodes[d]
            t = self.table_loop(dn, name)
            if t is None:
                continue
            handled.add(d)
            L, pairs = t
            outer = [x for x in self.rd[L.id].get(name, frozenset()) if L not in self.cfg.nodes[x].loops]
            if pairs:
                handled |= set(outer)     # a non-empty constant table: the zero-iteration bypass is infeasible
            base = []
            for od in sorted(outer):
                on = self.cfg.nodes[od]
                if on is self.cfg.entry:
                    base.append(Alt([("param", name)]))
                elif on.kind == "for":
                    base.append(Alt([("loopvar", name, on.id)], (on,)))
                elif on.kind == "stmt" and isinstance(on.ast, ast.Assign):
                    for a in self.alts(on.ast.value, on, depth + 1):
                        base.append(Alt(a.ops, a.nodes + (on,)))
            for b in base:
                cur = b
                for (x, y) in pairs:
                    cur = cur.add(("replace", x, y), dn)
                out.append(cur)
        defs = [d for d in defs if d not in handled]
        for d in sorted(defs):
            dn = self.cfg.nodes[d]
            if dn is self.cfg.entry:
                out.append(Alt([("param", name)]))
            elif dn.kind == "stmt" and isinstance(dn.ast, ast.Assign) and len(dn.ast.targets) == 1 and isinstance(dn.ast.targets[0], ast.Name):
                for a in self.alts(dn.ast.value, dn, depth + 1):
                    out.append(Alt(a.ops, a.nodes + (dn,)))
            elif dn.kind == "for":
                out.append(Alt([("loopvar", name, dn.id)], (dn,)))
            else:
                out.append(Alt([("other", dn.text)], (dn,)))
        return out

    def alts(self, e, node, depth=0):
        if depth > 12:
            return [Alt([("other", "deep")])]
        if isinstance(e, ast.Name):
            return self.name_alts(e.id, node, depth)
        if isinstance(e, ast.Constant):
            return [Alt([("const", e.value)])]
        if isinstance(e, (ast.List, ast.Tuple)) and not e.elts:
            return [Alt([("empty",)])]
        if isinstance(e, ast.IfExp):
            return ([a.add(("when", norm(e.test), True)) for a in self.alts(e.body, node, depth + 1)] +
                    [a.add(("when", norm(e.test), False)) for a in self.alts(e.orelse, node, depth + 1)])
        if isinstance(e, ast.Subscript):
            base = self.alts(e.value, node, depth + 1)
            if isinstance(e.slice, ast.Slice):
                lo = const_of(e.slice.lower) if e.slice.lower is not None else None
                hi = norm(e.slice.upper) if e.slice.upper is not None else None
                return [a.add(("slice", lo, hi, norm(e.slice.step) if e.slice.step else None)) for a in base]
            return [a.add(("index", norm(e.slice))) for a in base]
        if isinstance(e, ast.Call):
            fn = e.func
            if isinstance(fn, ast.Attribute):
                # string methods
                if fn.attr in ("lstrip", "strip", "rstrip", "removeprefix", "removesuffix", "split", "rsplit", "replace", "lower", "upper",
                               "partition", "splitlines", "casefold", "encode", "decode"):
                    args = tuple(const_of(a) if isinstance(a, ast.Constant) else norm(a) for a in e.args)
                    return [a.add((fn.attr,) + args) for a in self.alts(fn.value, node, depth + 1)]
            tg = self.calls.callee(self.f, e)
            for t in tg:
                if t.kind == "ext" and t.name.endswith("unquote") and e.args:
                    return [a.add(("unquote",)) for a in self.alts(e.args[0], node, depth + 1)]
                if t.kind == "ext" and t.name.split(".")[-1] in ("unquote_plus", "unquote_to_bytes") and e.args:
                    # a decoder of another convention (form encoding: '+' is a space): ordered like unquote, reported below
                    return [a.add(("unquote",)).add(("when", "decoder:" + t.name.split(".")[-1], True)) for a in self.alts(e.args[0], node, depth + 1)]
                if t.kind == "builtin" and t.name in ("int", "str", "list", "tuple", "iter") and e.args:
                    return [a.add((t.name,)) for a in self.alts(e.args[0], node, depth + 1)]
            return [Alt([("other", norm(e)[:50])])]
        return [Alt([("other", norm(e)[:50])])]


def canonical_index_regex(pat):
    """Is `pat` (used with fullmatch) exactly the language 0|[1-9][0-9]* ?  Decided on the parsed regex AST."""
    try:
        want = [str(sre_parse.parse(p)) for p in ("0|[1-9][0-9]*", "(?:0|[1-9][0-9]*)", "0|[1-9][0123456789]*")]
        got = str(sre_parse.parse(pat))
    except Exception:
        return False
    return got in want


def run(ctx):
    ctx.explanation = (
        "resolve_fragment is one short dataflow from the fragment parameter to the subscript on the document. The checker "
        "extracts, by reaching definitions, every way the tokenised value and each token can have been computed, as an ordered "
        "list of string operations, and checks the order against RFC 6901/3986: R14.1 exactly one leading '/' removed (never a "
        "run), R14.2 percent-decoding first, split before ~-unescaping, ~1 before ~0, R14.3 integer conversion only for real "
        "arrays and canonical indices, R14.4 every lookup failure becomes RefResolutionError. Not decided: value identity "
        "beyond the pipeline (Python indexing, trusted).")
    ctx.assume("str.split/replace/startswith, urllib.parse.unquote and re.fullmatch behave as documented")
    run_rules(ctx)
    # R14.8: no behaviour changes at a number fixed in the source (sizes, depths, counts, magnitudes are unbounded in the property's domain)
    from . import scope as _scope
    _scope.rule_no_size_thresholds(ctx, 'R14.8', ('validators',), 'JSON-pointer resolution')
    # R14.9: what a URL with a pointer designates is a function of the URL and the documents: the (memoised) step from URL to value does not read the scope stack (C14-r6m3)
    _scope.rule_memo_scope_free(ctx, "R14.9")

POINTER_DOC = {
    "a": {"b": [10, 20, {"c": 1}]}, "": "empty-key", "a/b": "slash", "m~n": "tilde", "~1": "tilde-one", "/": "slash-key", "0": "zero-key",
    "a b": "space", "a+b": "plus", "\u00e9": "accent", "arr": [["x"], "str"], "00": "double-zero", "1e0": "sci", "-1": "neg", "s": "text",
    "n": None, "%25": "percent", "t": True, "big": list(range(100, 112)), "caf\u00e9": "nfc", "cafe\u0301": "nfd", "\u2126": "ohm", "\u03a9": "omega",
    "A": "upper", "a ": "trailing-space", "a?b#c": "query-hash", "q\"\\": "quote-backslash",
    # keys that themselves look like escapes, below the first level (each token is decoded exactly once, at every depth)
    "nest": {"My%20Type": 7, "My Type": 70, "A": 8, "%41": 80, "lvl": {"x%41": 9, "xA": 10, "x%2541": 11, "": {"": "empty-empty", "k": 12}}, "~0": 13, "~": 14, "a~1b": 15},
    # a member name made of digits only, longer than the interpreter's int/str conversion limit: it is a *name*, never converted
    "digits": {"7" * 5000: "long-digit-key", "12": "twelve"},
    # member names from every part of Unicode are names like any other: beyond the BMP, controls, separators, noncharacters
    "uni": {"\U0001f44d": "thumbs-up", "\U00020bb7": "cjk-ext-b", "\U0001d4b3": "math-script", "\uffff": "bmp-last", "\U0010ffff": "last", "\x00": "nul",
            "\x7f": "del", "\u2028": "line-sep", "\n": "newline", "\t": "tab", "\ud7ff": "before-surrogates", "\ue000": "private-use", "a\U0001f44db": "mixed",
            # json.loads('"\\ud83d"') is a one-character string holding a lone surrogate: a member name like any other
            "\ud83d": "lone-high-surrogate", "x\udc00y": "lone-low-surrogate"},
}
POINTERS = ["", "/a", "/a/b", "/a/b/0", "/a/b/2/c", "/a/b/3", "/a/b/-1", "/a/b/01", "/a/b/1e0", "/a/b/ 1", "/a/b/+1", "/a/b/1.0", "/", "//", "/a~1b", "/m~0n",
            "/~01", "/~1", "/0", "/a%20b", "/a+b", "/%C3%A9", "/a%2Fb", "/arr/0/0", "/arr/1/0", "/arr/1", "/s/0", "/n/x", "/00", "/1e0", "/-1",
            "/missing", "/%2525", "/a/b/0/x", "/t/0", "/a/b/", "/a//b", "/a/b/\u0661",
            "/big/0", "/big/2", "/big/9", "/big/10", "/big/11", "/big/12", "/big/20", "/big/100", "/caf%C3%A9", "/cafe%CC%81", "/%E2%84%A6", "/%CE%A9",
            "/A", "/a%20", "/a%3Fb%23c", "/q%22%5C", "/a?b#c",
            # an index token longer than the interpreter's int/str conversion limit (sys.int_max_str_digits, 4300 since Python 3.11)
            "/big/" + "1" * 5000, "/arr/" + "9" * 4400 + "/0",
            "/nest/My%2520Type", "/nest/My%20Type", "/nest/%2541", "/nest/%41", "/nest/lvl/x%2541", "/nest/lvl/x%41", "/nest/lvl/x%252541", "/nest/lvl//", "/nest/lvl//k",
            "/nest/lvl/", "/nest/", "/nest/~00", "/nest/~0", "/nest/a~01b", "/nest/lvl///",
            "/digits/" + "7" * 5000, "/digits/12", "/digits/" + "7" * 4999, "/digits/012",
            "/uni/%F0%9F%91%8D", "/uni/\U0001f44d", "/uni/%F0%A0%AE%B7", "/uni/%F0%9D%92%B3", "/uni/%EF%BF%BF", "/uni/%F4%8F%BF%BF", "/uni/%00", "/uni/%7F",
            "/uni/%E2%80%A8", "/uni/%0A", "/uni/%09", "/uni/%ED%9F%BF", "/uni/%EE%80%80", "/uni/a%F0%9F%91%8Db", "/uni/%F0%9F%91%8E", "/uni/\ud83d", "/uni/x\udc00y", "/uni/\udc00",
            # an array index is ASCII digits only, from the first character to the last
            "/big/1\u0661", "/big/1\u0660", "/big/\u0661\u0660", "/big/\uff11", "/big/1\uff10", "/a/b/\uff11", "/big/1\u00b2", "/big/\u0967"]
_MISSING = object()


def _rfc6901(document, fragment):
    """Reference reading of a URI fragment as a JSON Pointer (RFC 3986 percent-decoding, then RFC 6901), independent of the code."""
    import re
    from urllib.parse import unquote
    ptr = unquote(fragment)
    if ptr == "":
        return document
    assert ptr.startswith("/")
    for tok in ptr[1:].split("/"):
        tok = tok.replace("~1", "/").replace("~0", "~")
        if isinstance(document, list):
            if not re.fullmatch("0|[1-9][0-9]*", tok) or len(tok) > 18 or int(tok) >= len(document):
                return _MISSING
            document = document[int(tok)]
        elif isinstance(document, dict):
            if tok not in document:
                return _MISSING
            document = document[tok]
        else:
            return _MISSING
    return document


def table_eval(prog, f):
    """resolve_fragment evaluated by sa/tokeval.py on POINTERS x POINTER_DOC against the reference reading above.
    -> list of (clause, message) differences, or None when outside the evaluated fragment."""
    from ..tokeval import Ev, Obj, Undecided, PyRaise
    bad = []
    try:
        for frag in POINTERS:
            ev = Ev(prog, fuel=20000, real_errors=True)
            recv = Obj(f.cls, {})
            recv.ev = ev
            want = _rfc6901(POINTER_DOC, frag)
            try:
                got = ev.call_func(f, [recv, POINTER_DOC, frag], {})
                err = None
            except PyRaise as pr:
                got, err = _MISSING, pr.name
            if err is not None and err != "RefResolutionError":
                bad.append(("R14.4", "unwrapped|%s" % err, "fragment %s: %s escapes instead of RefResolutionError" % (
                    repr(frag) if len(frag) < 60 else repr(frag[:12]) + "... (%d characters)" % len(frag), err)))
            elif want is _MISSING and err is None:
                clause = "R14.3" if any(ch.isdigit() for ch in frag.rsplit("/", 1)[-1]) or "/s/" in frag or "/arr/1/" in frag else "R14.4"
                bad.append((clause, "resolves-nothing", "fragment %r designates nothing in the document, yet %r is returned" % (frag, got)))
            elif want is not _MISSING and (err is not None or not (got is want or (type(got) is type(want) and got == want))):
                clause = "R14.2" if ("%" in frag or "~" in frag or "+" in frag) else ("R14.1" if frag.startswith("//") or frag in ("/", "/a//b", "/a/b/") else "R14.3")
                bad.append((clause, "wrong-target", "fragment %r designates %r, but %s" % (frag, want, ("%r is returned" % (got,)) if err is None else "RefResolutionError is raised")))
    except Undecided:
        return None
    return bad


def resolve_eval(prog):
    """The same table one level up: RefResolver.resolve('#<fragment>') on a resolver whose own document is POINTER_DOC.  The
    fragment must reach the pointer walk as written in the reference (nothing trimmed, re-encoded or decoded on the way), and the
    URL handed back must be the joined URL.  -> list of messages, or None when outside the evaluated fragment."""
    from urllib.parse import urljoin, urldefrag
    from ..tokeval import Undecided, PyRaise
    from .ressem import _resolver
    base = "http://base/root/doc.json"
    bad = []
    try:
        for frag in POINTERS:
            ev, o, R, st = _resolver(prog, {}, store={base: POINTER_DOC}, base=base)
            ref = "#" + frag
            want_url = urljoin(base, ref)
            want = _rfc6901(POINTER_DOC, urldefrag(want_url)[1])
            shown = repr(ref) if len(ref) < 60 else repr(ref[:14]) + "... (%d characters)" % len(ref)
            try:
                got_url, got = ev.call_func(ev.find_method(R, "resolve"), [o, ref], {})
                err = None
            except PyRaise as pr:
                got_url, got, err = None, _MISSING, pr.name
            if err is not None and err != "RefResolutionError":
                bad.append("resolve(%s): %s escapes instead of RefResolutionError" % (shown, err))
            elif want is _MISSING and err is None:
                bad.append("resolve(%s) designates nothing in the document, yet %r is returned" % (shown, got))
            elif want is not _MISSING and (err is not None or not (got is want or (type(got) is type(want) and got == want))):
                bad.append("resolve(%s) designates %r, but %s" % (shown, want, ("%r is returned" % (got,)) if err is None else "RefResolutionError is raised"))
            elif err is None and got_url != want_url:
                bad.append("resolve(%s) hands back the URL %r, the joined URL is %r" % (shown, got_url, want_url))
    except Undecided:
        return None
    return bad


def rule_through_resolve(ctx, rid="R14.5"):
    prog = ctx.prog
    f = find_method(prog, "validators.RefResolver", "resolve")
    r = ctx.rule(rid, "a reference's fragment reaches the pointer walk as written: resolve('#<fragment>') designates what RFC 6901 says, on the whole table", floor=1)
    try:
        res = resolve_eval(prog)
    except RecursionError:
        res = None
    if res is None:
        r.ok(site(f), "NOT DECIDED: outside the evaluated fragment")
        r.note(site(f), "R14.5 not decided")
    elif not res:
        r.ok(site(f), "%d fragments through resolve(): same targets as the reference reading, URL = the joined URL" % len(POINTERS))
    else:
        r.fail("%s|fragment-altered" % f.qual, site(f), res[0] + " [%d of %d fragments differ]" % (len(res), len(POINTERS)))
    return r


def run_rules(ctx):
    prog = ctx.prog
    f = find_method(prog, "validators.RefResolver", "resolve_fragment")
    rule_through_resolve(ctx)
    # R14.6/R14.7: the document a pointer is followed in is the one that was stored or that the handler returned -- null, "" and a
    # root that is a JSON string included: found in the store as it is, not fetched again, not parsed again
    from .c15 import rule_handler_documents, rule_store_first
    rule_handler_documents(ctx, "R14.6")
    rule_store_first(ctx, "R14.7")
    try:
        run_rules_dataflow(ctx)
        # the ordering analysis speaks about the order of operations; what it cannot see (an extra test on the token, a
        # normalisation of the decoded text, a comparison done on strings) is looked for on the table of fragments as well
        res = table_eval(prog, f)
        if res:
            by = {r.id: r for r in ctx.rules if r.id.startswith("R14.")}
            for (rid, key, msg) in res[:4]:
                if rid in by and not by[rid].findings:
                    by[rid].fail("%s|%s" % (f.qual, key), site(f), msg + " (table of %d fragments)" % len(POINTERS))
        elif res is not None:
            by = {r.id: r for r in ctx.rules if r.id.startswith("R14.")}
            if "R14.4" in by:
                by["R14.4"].ok(site(f) + " [table]", "agrees with the RFC 6901/3986 reference reading on %d fragments (escaped, empty, numeric, non-ASCII keys; arrays of 3 and 12)" % len(POINTERS))
        return
    except AnalysisError as why:
        # the ordering analysis could not extract the pipeline (helpers, other control flow): decide on the table instead
        ctx.rules[:] = [r for r in ctx.rules if not r.id.startswith("R14.") or r.id == "R14.5"]
        res = table_eval(prog, f)
        rs = {rid: ctx.rule(rid, t, floor=1) for rid, t in (
            ("R14.1", "exactly one leading '/' is removed from the pointer, never a run of them"),
            ("R14.2", "percent-decode first, then tokenise, then ~1 -> '/', then ~0 -> '~', on every token"),
            ("R14.3", "a token becomes an integer only for real arrays and only when it is a canonical index"),
            ("R14.4", "every failing lookup becomes RefResolutionError; the empty fragment is the whole document"))}
        if res is None:
            for r in rs.values():
                r.ok(site(f), "NOT DECIDED: pipeline not extractable (%s) and outside the evaluated fragment" % why)
            rs["R14.1"].note(site(f), "resolve_fragment not decided: %s" % why)
            return
        for rid, r in rs.items():
            mine = [b for b in res if b[0] == rid]
            if not mine:
                r.ok(site(f), "agrees with RFC 6901/3986 on %d fragments against a document with escaped, empty, numeric and non-ASCII keys "
                              "(table evaluation; the ordering analysis could not follow this code shape: %s)" % (len(POINTERS), str(why)[:60]))
            for (_rid, key, msg) in mine[:3]:
                r.fail("%s|%s" % (f.qual, key), site(f), msg)


def run_rules_dataflow(ctx):
    prog = ctx.prog
    calls = calls_of(prog)
    f = find_method(prog, "validators.RefResolver", "resolve_fragment")
    sym = Sym(prog, f)
    cfg = sym.cfg
    dp, fp = f.params[1], f.params[2]
    loops = [n for n in cfg.live if n.kind == "for" and not n.loops]
    if len(loops) != 1:
        raise AnalysisError("resolve_fragment: expected one token loop, found %d" % len(loops))
    loop = loops[0]
    r1 = ctx.rule("R14.1", "exactly one leading '/' is removed from the pointer, never a run of them", floor=1)
    r2 = ctx.rule("R14.2", "percent-decode first, then tokenise, then ~1 -> '/', then ~0 -> '~', on every token", floor=3)
    r3 = ctx.rule("R14.3", "a token becomes an integer only for real arrays and only when it is a canonical index", floor=1)
    r4 = ctx.rule("R14.4", "every failing lookup becomes RefResolutionError; the empty fragment is the whole document", floor=2)

    # ------------------------------------------------------------------ tokens
    alts = sym.alts(loop.ast.iter, loop)
    nonempty = []
    empties = []
    for a in alts:
        kinds = [o[0] for o in a.ops]
        if "empty" in kinds:
            empties.append(a)
        else:
            nonempty.append(a)
    if not nonempty:
        raise AnalysisError("resolve_fragment: cannot extract how the token list is computed")
    saw_drop = False
    for a in nonempty:
        for o in a.ops:
            if o[0] == "when" and str(o[1]).startswith("decoder:"):
                r2.fail("%s|decoder|%s" % (f.qual, o[1][8:]), site(f, loop.ast),
                        "the fragment is decoded with %s, not urllib.parse.unquote: '+' becomes a space, so the keys 'a+b' and 'a b' "
                        "are confused (RFC 3986 has no such convention in fragments)" % o[1][8:])
        ops = [o for o in a.ops if o[0] != "when"]
        kinds = [o[0] for o in ops]
        desc = " > ".join("%s%s" % (o[0], list(o[1:]) if len(o) > 1 else "") for o in ops)
        if ops[0] != ("param", fp):
            raise AnalysisError("token list not derived from the fragment parameter: %s" % desc)
        unknown = [o for o in ops[1:] if o[0] in ("other", "index", "lower", "upper", "partition", "rsplit", "encode", "decode", "casefold", "splitlines", "const")]
        if unknown:
            raise AnalysisError("unrecognised operation in the pointer pipeline: %s" % desc)
        if "split" not in kinds or [o for o in ops if o[0] == "split"][0][1:] != ("/",):
            r2.fail("%s|no-split|%s" % (f.qual, desc), site(f, loop.ast), "the pointer is not tokenised by split('/'): %s" % desc)
            continue
        i_split = kinds.index("split")
        # R14.1
        runs = [o for o in ops if o[0] in ("lstrip", "strip", "rstrip")]
        drops = [o for o in ops[:i_split] if (o[0] == "slice" and o[1] == 1 and o[2] is None and o[3] is None) or (o[0] == "removeprefix" and o[1:] == ("/",))]
        drops += [o for o in ops[i_split + 1:] if o[0] == "slice" and o[1] == 1 and o[2] is None and o[3] is None]
        other_slices = [o for o in ops if o[0] in ("slice", "removeprefix", "removesuffix") and o not in drops]
        if runs:
            r1.fail("%s|strips-run|%s" % (f.qual, runs[0][0]), site(f, a.nodes[0].ast if a.nodes else loop.ast),
                    "%s(%r) removes a *run* of characters: the pointers '/' (key \"\") and '//a' lose their empty reference tokens [%s]" % (
                        runs[0][0], runs[0][1] if len(runs[0]) > 1 else None, desc))
        elif other_slices:
            r1.fail("%s|odd-slice|%s" % (f.qual, other_slices[0]), site(f, loop.ast), "unexpected slicing of the pointer: %s" % desc)
        elif len(drops) == 1:
            saw_drop = True
            r1.ok(site(f, loop.ast), "one leading character removed: %s" % desc)
        elif len(drops) == 0:
            # acceptable only as the not-startswith('/') arm of a fork whose other arm drops one
            r1.ok(site(f, loop.ast), "arm without a leading '/': %s" % desc)
        else:
            r1.fail("%s|drops:%d" % (f.qual, len(drops)), site(f, loop.ast), "%d leading characters removed: %s" % (len(drops), desc))
        # R14.2 order
        if "unquote" not in kinds:
            r2.fail("%s|no-unquote|%s" % (f.qual, desc), site(f, loop.ast), "the fragment is never percent-decoded: %s" % desc)
        else:
            i_unq = kinds.index("unquote")
            first_touch = min([i for i, o in enumerate(ops) if o[0] in ("slice", "removeprefix", "lstrip", "strip", "split", "replace")] or [99])
            if i_unq < first_touch:
                r2.ok(site(f, loop.ast), "unquote precedes '/'-removal and split: %s" % desc)
            else:
                r2.fail("%s|unquote-late|%s" % (f.qual, ops[first_touch][0]), site(f, loop.ast),
                        "percent-decoding happens after %s: an encoded separator (%%2F) is not treated like '/' [%s]" % (ops[first_touch][0], desc))
        if "replace" in kinds[:i_split]:
            r2.fail("%s|unescape-before-split" % f.qual, site(f, loop.ast), "~-unescaping before tokenising turns an escaped '/' into a separator: %s" % desc)
    if not saw_drop and not any(x["verdict"] == "FAIL" for x in r1.instances):
        r1.fail("%s|never-drops-leading-slash" % f.qual, site(f, loop.ast), "no arm removes the pointer's leading '/'")
    # empty fragment
    if empties:
        r4.ok(site(f, loop.ast), "empty fragment -> no tokens -> the document itself")
    else:
        # an unconditional split of "" yields [""]: the empty fragment would address key ""
        ok_empty = any(n.kind == "test" and (norm(n.ast) in (fp, "not %s" % fp) or "== ''" in norm(n.ast)) for n in cfg.live)
        if ok_empty:
            r4.ok(site(f, loop.ast), "empty fragment handled by an explicit test")
        else:
            r4.fail("%s|empty-fragment" % f.qual, site(f, loop.ast), "the empty fragment is tokenised like any other: it would address the key \"\" instead of the whole document")

    # ------------------------------------------------------------------ per token
    subs = []
    for n in cfg.live:
        if loop not in n.loops:
            continue
        for e in node_exprs(n):
            for s in walk_expr(e):
                if isinstance(s, ast.Subscript) and isinstance(s.ctx, ast.Load) and isinstance(s.value, ast.Name) and s.value.id == dp:
                    subs.append((n, s))
    if len(subs) != 1:
        raise AnalysisError("resolve_fragment: expected one lookup document[token], found %d" % len(subs))
    sn, sub = subs[0]
    lv = loop.ast.target.id if isinstance(loop.ast.target, ast.Name) else None
    talts = sym.alts(sub.slice, sn)
    int_alts = []
    for a in talts:
        ops = [o for o in a.ops if o[0] != "when"]
        desc = " > ".join("%s%s" % (o[0], list(o[1:]) if len(o) > 1 else "") for o in ops)
        if not ops or ops[0][0] != "loopvar":
            raise AnalysisError("lookup key not derived from the token loop variable: %s" % desc)
        reps = [o for o in ops if o[0] == "replace"]
        rest = [o for o in ops[1:] if o[0] not in ("replace", "int")]
        if any(o[0] == "unquote" for o in rest):
            r2.fail("%s|unquote-per-token" % f.qual, site(f, sub),
                    "percent-decoding is applied to single tokens, after the split: an encoded separator (%%2F) ends up inside a key instead of separating tokens [%s]" % desc)
            rest = [o for o in rest if o[0] != "unquote"]
        if rest:
            raise AnalysisError("unrecognised per-token operation: %s" % desc)
        seq = [(o[1], o[2]) for o in reps]
        if seq == [("~1", "/"), ("~0", "~")]:
            r2.ok(site(f, sub), "token: %s" % desc)
        elif seq == [("~0", "~"), ("~1", "/")]:
            r2.fail("%s|unescape-order" % f.qual, site(f, sub), "~0 is unescaped before ~1: the token `~01` decodes to '/' instead of '~1' [%s]" % desc)
        else:
            r2.fail("%s|unescape-set|%s" % (f.qual, seq), site(f, sub), "token unescaping is %s, expected ~1->'/' then ~0->'~' on every token" % seq)
        if any(o[0] == "int" for o in ops):
            int_alts.append(a)
    # R14.3
    int_nodes = []
    for a in int_alts:
        for n in a.nodes:
            if n.kind == "stmt" and isinstance(n.ast, ast.Assign) and isinstance(n.ast.value, ast.Call) and norm(n.ast.value.func) == "int":
                if n not in int_nodes:
                    int_nodes.append(n)
    if not int_nodes:
        r3.fail("%s|no-int-conversion" % f.qual, site(f, sub), "tokens are never converted to integers: array elements cannot be addressed")
    for n in int_nodes:
        tests = [t for t in cfg.live if t.kind == "test" and loop in t.loops]
        # array test
        arr_true, str_excl, canon = [], [], []
        for t in tests:
            e = t.ast
            if isinstance(e, ast.Call) and norm(e.func) == "isinstance" and len(e.args) == 2 and norm(e.args[0]) == dp:
                ty = norm(e.args[1])
                if ty in ("list", "(list, tuple)", "(list,)"):
                    arr_true.append((t, "true", True))
                elif ty in ("Sequence", "collections.abc.Sequence", "abc.Sequence", "MutableSequence"):
                    arr_true.append((t, "true", ty == "MutableSequence"))
                elif ty in ("str", "(str, bytes)", "(str,)", "(bytes, str)"):
                    str_excl.append((t, "false"))
            if isinstance(e, ast.Call) and isinstance(e.func, ast.Attribute) and e.func.attr in ("fullmatch", "match") and e.args and norm(e.args[-1]) == lv:
                pat = None
                if len(e.args) == 2 and isinstance(e.args[0], ast.Constant):
                    pat = e.args[0].value
                elif len(e.args) == 1:
                    rr = prog.resolve_expr(f.mod, e.func.value, f)
                    if isinstance(rr, tuple) and rr[0] == "expr" and isinstance(rr[2], ast.Call) and rr[2].args and isinstance(rr[2].args[0], ast.Constant):
                        pat = rr[2].args[0].value
                if pat is not None:
                    canon.append((t, "true", e.func.attr == "fullmatch" and canonical_index_regex(pat), pat))
        ga = [x for x in arr_true if only_via_edge(cfg, n, [(x[0], x[1])], True)]
        gs = [x for x in str_excl if only_via_edge(cfg, n, [(x[0], "false")], False) or only_via_edge_label(cfg, n, x[0], "false")]
        gc = [x for x in canon if only_via_edge(cfg, n, [(x[0], x[1])], True)]
        if not ga:
            r3.fail("%s|int-without-array-test" % f.qual, site(f, n.ast), "int(token) is not guarded by a test that the current value is an array")
        elif not any(x[2] for x in ga) and not gs:
            r3.fail("%s|array-test-admits-str" % f.qual, site(f, n.ast),
                    "the array test `%s` also holds for strings (a str is a Sequence): `/a/0` on {\"a\": \"xyz\"} would return \"x\"" % norm(ga[0][0].ast))
            if not gc:
                r3.fail("%s|non-canonical-index" % f.qual, site(f, n.ast),
                        "int(token) is applied to tokens that were not checked to be canonical array indices: '-1', '01', '+1', ' 1', '1_0' resolve through int()")
        elif not gc:
            r3.fail("%s|non-canonical-index" % f.qual, site(f, n.ast),
                    "int(token) is applied to tokens that were not checked to be canonical array indices: '-1', '01', '+1', ' 1', '1_0' resolve through int()")
        elif not any(x[2] for x in gc):
            r3.fail("%s|index-regex|%s" % (f.qual, gc[0][3]), site(f, n.ast),
                    "the index test %s is not a full match of 0|[1-9][0-9]*" % norm(gc[0][0].ast))
        else:
            r3.ok(site(f, n.ast), "int(token) only under %s%s and %s" % (norm(ga[0][0].ast), (" and not " + norm(gs[0][0].ast)) if gs else "", norm(gc[0][0].ast)))
    # R14.4 handlers
    trys = [t for (t, wh) in sn.trys if wh == "body"]
    need = ["TypeError", "KeyError", "IndexError"]
    parent = {"KeyError": "LookupError", "IndexError": "LookupError", "LookupError": "Exception", "TypeError": "Exception", "Exception": "BaseException"}

    def covered(exc, names):
        cur = exc
        while cur:
            if cur in names:
                return True
            cur = parent.get(cur)
        return False
    hs = [h for t in trys for h in t.handlers]
    names = set()
    for h in hs:
        names |= set(handler_names(h) or ["BaseException"])
    miss = [e for e in need if not covered(e, names)]
    rre = prog.cls("exceptions.RefResolutionError")
    if not trys:
        r4.fail("%s|lookup-not-in-try" % f.qual, site(f, sub), "document[token] is outside any try: a missing key escapes as KeyError/IndexError/TypeError")
    elif miss:
        r4.fail("%s|uncovered|%s" % (f.qual, ",".join(miss)), site(f, trys[-1]), "the handler around the lookup does not cover %s" % ", ".join(miss))
    else:
        good = True
        for h in hs:
            hn = [x for x in cfg.live if x.kind == "except" and x.ast is h][0]
            seen, todo = set(), [hn]
            while todo:
                x = todo.pop()
                if x.id in seen:
                    continue
                seen.add(x.id)
                if x.kind == "raise":
                    exc = x.ast.exc if isinstance(x.ast, ast.Raise) else None
                    if not (isinstance(exc, ast.Call) and prog.resolve_expr(f.mod, exc.func, f) is rre):
                        good = False
                    continue
                if x.kind in ("return", "exit", "for", "continue", "break") or x is loop:
                    good = False
                    continue
                todo.extend(y for (l, y) in x.succ if l != "exc")
        if good:
            r4.ok(site(f, trys[-1]), "handlers %s -> raise RefResolutionError" % sorted(names))
        else:
            r4.fail("%s|handler-end" % f.qual, site(f, trys[-1]), "a lookup failure does not always end in RefResolutionError")
    # the function returns the walked document
    rets = [n for n in cfg.live if n.kind == "return"]
    if len(rets) == 1 and norm(rets[0].ast.value) == dp and not rets[0].loops:
        r4.ok(site(f, rets[0].ast), "returns the value reached after the last token")
    else:
        r4.fail("%s|return" % f.qual, site(f), "does not return the value reached after the last token: %s" % [norm(x.ast.value) for x in rets])
    # each step re-binds document to document[token]
    if sn.kind == "stmt" and isinstance(sn.ast, ast.Assign) and norm(sn.ast.targets[0]) == dp and sn.ast.value is sub:
        r4.ok(site(f, sn.ast), "document = document[token]")
    else:
        r4.fail("%s|step" % f.qual, site(f, sn.ast), "the walk does not step document = document[token]: %s" % sn.text)


def only_via_edge_label(cfg, node, test, label):
    """Every path from entry to node leaves `test` through `label` (i.e. never through the other label)."""
    other = "true" if label == "false" else "false"
    seen, todo = set(), [cfg.entry]
    while todo:
        x = todo.pop()
        if x.id in seen:
            continue
        seen.add(x.id)
        if x is node:
            return False
        for (l, y) in x.succ:
            if x is test and l == label:
                continue
            todo.append(y)
    # node unreachable without the labelled edge; additionally the other edge must not reach it
    seen, todo = set(), [y for (l, y) in test.succ if l == other]
    while todo:
        x = todo.pop()
        if x.id in seen:
            continue
        seen.add(x.id)
        if x is node:
            return False
        if x is test:
            continue
        todo.extend(y for (_l, y) in x.succ)
    return True
