"""multipleOf / divisibleBy and the four bound keywords evaluated by sa/tokeval.py on a table of *concrete* number pairs.

The structural rules of C09 (R9.2-R9.5) argue about every number from the shape of the code; this table is their companion for code
whose shape they do not recognise (the quotient formed in a helper, the remainder taken by operator.mod, the verdict returned by a
nested function): the function's AST is interpreted -- Python's own int/float/Fraction arithmetic does the sums, so an int too large
for a float raises OverflowError exactly where CPython would -- and the answer is compared with exact rational arithmetic.

A verdict is expected only on the sub-domain the property names (all-integer operands of any size; otherwise integers of magnitude
at most 2**53 taking part, and a power-of-two divisor whose quotient does not underflow, or an integer divisor under a float
instance, or two dyadic rationals with small numerators).  Everywhere else only "no exception" is expected.  It is a table: it
decides these rows, not every number.  -> {clause: None | message}, or None when outside the evaluated fragment."""
from fractions import Fraction
import math

from ..tokeval import Ev, ValidatorStub, Undecided, PyRaise

BIG = 10 ** 400
F_MAX = 1.7976931348623157e308
TINY = 5e-324


def _pow2(x):
    if isinstance(x, float) and x != 0 and math.isfinite(x):
        m, _e = math.frexp(abs(x))
        return m == 0.5
    return False


def _dyadic_small(x):
    fr = Fraction(x)
    d = fr.denominator
    return d & (d - 1) == 0 and d <= 2 ** 20 and abs(fr.numerator) <= 2 ** 20


def in_exact_domain(inst, div):
    if isinstance(inst, int) and isinstance(div, int):
        return True
    for x in (inst, div):
        if isinstance(x, int) and abs(x) > 2 ** 53:
            return False
    if _pow2(div):
        q = Fraction(inst) / Fraction(div)
        return q == 0 or abs(q) >= Fraction(2) ** -1000       # no underflow of the quotient
    if isinstance(div, int) and isinstance(inst, float):
        return True
    return _dyadic_small(inst) and _dyadic_small(div)


def is_multiple(inst, div):
    return (Fraction(inst) / Fraction(div)).denominator == 1


MULTIPLE_ROWS = [
    # integers of any size
    (0, 1), (7, 7), (7, 2), (-8, 4), (9, -3), (-9, -3), (1, 7), (10 ** 30, 10 ** 15), (10 ** 30 + 1, 10 ** 15), (2 ** 70 + 1, 2), (2 ** 70, 2),
    (2 ** 53 + 1, 1), (2 ** 53 + 1, 2), (2 ** 64 + 2, 2 ** 63 + 1), (BIG, 10 ** 200), (BIG + 1, 10), (-BIG, 7), (-BIG * 7, 7), (3 ** 700, 3 ** 699), (3 ** 700, 2),
    (5, BIG), (0, BIG), (BIG, BIG), (BIG + 1, BIG), (10 ** 22 + 1, 10 ** 11), (12345678901234567890123, 3),
    # integer instance, float divisor
    (4, 0.5), (3, 0.5), (3, 2.0), (6, 2.0), (7, 0.25), (2 ** 53, 2.0), (2 ** 53, 4.0), (3, 0.75), (9, 4.5), (10, 4.5), (1, 0.75), (0, 0.5), (-6, 1.5), (-7, 1.5),
    (1, 2.0 ** -40), (3, 2.0 ** 40), (2 ** 45, 2.0 ** 40), (2 ** 53, 1.0), (5, 1.0), (7, 8.0),
    # float instance, float divisor (power of two, dyadic)
    (4.5, 0.5), (4.75, 0.5), (4.75, 0.25), (1e308, 0.5), (1e308, 0.25), (-1e308, 0.5), (F_MAX, 0.5), (F_MAX, 2.0 ** -20), (1e300, 2.0 ** -30), (1e308, TINY),
    (-F_MAX, 2.0 ** -1000), (1e308, 2.0 ** -1074), (3.5, 2.0 ** 60), (2.0 ** 60, 2.0 ** 59), (2.0 ** 60 + 2.0 ** 10, 2.0 ** 11), (0.0, 0.5), (-0.0, 0.5), (-0.0, 2.0),
    (1.5, 0.75), (2.25, 0.75), (2.5, 0.75), (0.375, 0.125), (0.5, 4.0), (6.0, 1.5), (6.5, 1.5), (1024.5, 0.5), (1e16, 2.0), (1e16, 4.0), (9007199254740993.0, 1.0),
    (2.0 ** 1000, 2.0 ** -60), (2.0 ** 1023, 2.0 ** -51), (3 * 2.0 ** 1000, 2.0 ** -30), (-3 * 2.0 ** 1000, 2.0 ** 1001),
    # float instance, integer divisor
    (7.5, 2), (8.0, 2), (1e300, BIG), (1e22, 10), (-0.0, 5), (1e308, 3), (1e308, 2), (F_MAX, 2 ** 970), (F_MAX, 2 ** 971), (2.5, 1), (3.0, 1), (1e16, 3), (4.0, -2), (1e300, 7),
    (5e-324, 1), (0.0, BIG), (1e22, 2 ** 53 + 1), (2.0 ** 80, 2 ** 40), (2.0 ** 80 + 2.0 ** 30, 2 ** 31), (9007199254740992.0, 3),
    # no verdict claimed: only "does not raise"
    (BIG, 0.5), (BIG, 1e-300), (-BIG, 2.0 ** -1074), (BIG + 1, 3.0), (1e-320, 1e308), (TINY, 1e308), (TINY, 2.0), (TINY, TINY), (0.3, 0.1), (0.7, 0.1), (1.1, 0.1),
    (2 ** 53 + 1, 2.0), (1e308, 1e-308), (1e308, 3e-320), (F_MAX, 0.1), (F_MAX, 0.3), (-F_MAX, 7e-310), (3 ** 700, 0.75), (3 ** 700, 1e300), (BIG, F_MAX), (BIG, TINY),
    (1e-300, BIG), (0.1, BIG), (1e308, BIG), (7, 1e-320), (10 ** 309, 1.0), (10 ** 308, 1.0), (2 ** 1024, 2.0), (2 ** 1024 - 1, 0.5), (-(2 ** 1024), 2.0 ** -1074),
]


def multiple_eval(prog, f, keyword):
    """-> (clauses, n_rows, n_with_verdict)"""
    out = {"exact": None, "never-raises": None}
    n_verdict = 0
    try:
        for inst, div in MULTIPLE_ROWS:
            for (i, d) in ((inst, div), (-inst, div)) if inst else ((inst, div),):
                label = "%r against %s %r" % (i, keyword, d)
                try:
                    res = Ev(prog, fuel=8000).call_func(f, [ValidatorStub({}), d, i, {keyword: d}], {})
                    got = len(list(res)) if res is not None else 0
                except PyRaise as pr:
                    out["never-raises"] = out["never-raises"] or "%s: raises %s (%s)" % (label, pr.name, pr.msg)
                    continue
                if got not in (0, 1):
                    out["exact"] = out["exact"] or "%s: %d errors" % (label, got)
                if in_exact_domain(i, d):
                    n_verdict += 1
                    want = 0 if is_multiple(i, d) else 1
                    if got != want:
                        out["exact"] = out["exact"] or "%s: %s, but exact arithmetic says it %s a multiple" % (
                            label, "reports an error" if got else "reports nothing", "is" if want == 0 else "is not")
        # a non-number instance is ignored, whatever the divisor
        for i in ("12", None, True, [4], {"a": 4}):
            for d in (2, 0.5):
                try:
                    res = Ev(prog, fuel=8000).call_func(f, [ValidatorStub({}), d, i, {keyword: d}], {})
                    if res is not None and list(res):
                        out["exact"] = out["exact"] or "%r against %s %r: a non-number is reported" % (i, keyword, d)
                except PyRaise as pr:
                    out["never-raises"] = out["never-raises"] or "%r against %s %r: raises %s" % (i, keyword, d, pr.name)
    except Undecided as u:
        return None, str(u), 0
    return out, 2 * len(MULTIPLE_ROWS), n_verdict


BOUND_ROWS = [
    (0, 0), (1, 0), (-1, 0), (5, 5.0), (5, 5.5), (6, 5.5), (-0.0, 0), (0, -0.0), (0.0, -0.0), (TINY, 0), (-TINY, 0), (0, TINY), (TINY, TINY), (2 * TINY, TINY),
    (2 ** 53 + 1, 2.0 ** 53), (2 ** 53, 2.0 ** 53), (2 ** 53 - 1, 2.0 ** 53), (2.0 ** 53, 2 ** 53 + 1), (2.0 ** 53, 2 ** 53 - 1), (-(2 ** 53) - 1, -(2.0 ** 53)),
    (9007199254740993, 9007199254740992.0), (9007199254740993, 9007199254740994.0), (2 ** 64 + 1, 2.0 ** 64), (2 ** 64 - 1, 2.0 ** 64), (2.0 ** 64, 2 ** 64 + 1),
    (BIG, F_MAX), (-BIG, -F_MAX), (F_MAX, BIG), (-F_MAX, -BIG), (BIG, BIG + 1), (BIG + 1, BIG), (BIG, BIG), (-BIG, BIG), (1e308, BIG), (BIG, 1e308), (BIG, 0.5), (0.5, BIG),
    (10 ** 308, 1e308), (1e308, 10 ** 308), (int(1e308), 1e308), (int(1e308) + 1, 1e308), (int(1e308) - 1, 1e308), (int(F_MAX), F_MAX), (int(F_MAX) + 1, F_MAX),
    (2 ** 1024, F_MAX), (F_MAX, 2 ** 1024), (2 ** 1024 - 2 ** 970, F_MAX), (-(2 ** 1024), -F_MAX), (0.1, 0), (0.1, 1), (1, 0.1), (10 ** 17, 1e17), (10 ** 17 + 1, 1e17),
    (10 ** 23, 1e23), (1e23, 10 ** 23), (1.5, 1), (1.5, 2), (-1.5, -1), (-1.5, -2), (3, 3), (3.0, 3), (3, 3.0), (7 ** 300, 7.0 ** 300), (7.0 ** 300, 7 ** 300),
]


def _cmp(a, b):
    fa, fb = Fraction(a), Fraction(b)
    return "LT" if fa < fb else ("GT" if fa > fb else "EQ")


def bounds_eval(prog, f, draft, keyword, tbl, modifier):
    """tbl: {exclusive?: set of outcomes (of instance against bound) that are errors}."""
    out = {"exact": None, "never-raises": None}
    mods = (None, False, True) if modifier and draft in ("draft3", "draft4") else (None,)
    n = 0
    try:
        for inst, bound in BOUND_ROWS:
            for E in mods:
                schema = {keyword: bound}
                if E is not None:
                    schema[modifier] = E
                label = "%r against %s %r%s" % (inst, keyword, bound, "" if E is None else " with %s=%s" % (modifier, E))
                n += 1
                try:
                    res = Ev(prog, fuel=8000).call_func(f, [ValidatorStub({}), bound, inst, schema], {})
                    got = len(list(res)) if res is not None else 0
                except PyRaise as pr:
                    out["never-raises"] = out["never-raises"] or "%s: raises %s (%s)" % (label, pr.name, pr.msg)
                    continue
                want = 1 if _cmp(inst, bound) in tbl[bool(E)] else 0
                if got != want:
                    out["exact"] = out["exact"] or "%s: %s; on the exact values the instance is %s the bound" % (
                        label, "an error is reported" if got else "nothing is reported", {"LT": "below", "GT": "above", "EQ": "equal to"}[_cmp(inst, bound)])
    except Undecided as u:
        return None, str(u)
    return out, n
