"""C10 - unknown, annotation and other-draft keywords are inert (claimed)."""
import ast

from ..prog import norm, walk_body, DRAFTS, AnalysisError
from ..cfg import cfg_of, reaching_defs
from ..calls import calls_of
from ..common import dispatcher, calls_at, const_of
from ..schemareads import schema_reads, child_reads, reads_on_names, ITER_KINDS
from .. import spec
from ..report import site
from . import tables, c02


def rule_read_set(ctx, rid="R10.1"):
    """Per draft: every constant key that validation-reachable code reads from a schema object is either a table
    key, a declared sibling of the reading keyword, the id key, or $ref."""
    prog = ctx.prog
    calls = calls_of(prog)
    t = prog.tables
    r = ctx.rule(rid, "the keys read from schema objects are exactly vocabulary + declared siblings + id key + $ref", floor=110)
    read_sets = {}
    for d in DRAFTS:
        dr = t.drafts[d]
        allowed_all = set()
        for k, f in sorted(dr.table.items()):
            want = spec.siblings(d, k)
            rs = schema_reads(prog, f)
            keyed = [x for x in rs if x.kind in ("get", "getitem", "in", "pop", "setdefault")]
            have = {x.key for x in keyed if not x.message_only}
            nonconst = [x for x in keyed if not isinstance(x.key, str)]
            where = "%s [%s.%s]" % (site(f), d, k)
            for x in nonconst:
                r.fail("%s|nonconst-read|%s" % (f.qual, norm(x.node)), site(x.func, x.node),
                       "schema read with a non-constant key: %s" % norm(x.node))
            have = {h for h in have if isinstance(h, str)}
            extra = have - want
            missing = want - have
            if not extra and not missing:
                r.ok(where, "sibling reads %s" % (sorted(have) or "none"))
            for e in sorted(extra):
                ex = [x for x in keyed if x.key == e][0]
                r.fail("%s|%s|undeclared-sibling|%s" % (d, f.qual, e), site(ex.func, ex.node),
                       "%s keyword %r (function %s) reads schema key %r, which the draft does not let it consult: an inert keyword would affect validation" % (d, k, f.qual, e))
            for m in sorted(missing):
                r.fail("%s|%s|sibling-not-read|%s" % (d, f.qual, m), where,
                       "%s keyword %r never reads its declared sibling %r" % (d, k, m))
            # reads inside elements of the keyword value (child subschemas)
            cwant = spec.CHILD_READS.get((d, k), set())
            cs = child_reads(prog, f)
            chave = {x.key for x in cs if not x.message_only}
            for x in cs:
                if x.message_only:
                    r.note(site(x.func, x.node), "message-only read of %r in a member of the %r value (flows only into repr/formatting)" % (x.key, k))
            for e in sorted(chave - cwant):
                ex = [x for x in cs if x.key == e][0]
                r.fail("%s|%s|child-read|%s" % (d, f.qual, e), site(ex.func, ex.node),
                       "%s keyword %r reads key %r inside a member of its value, which only the member's own validation may do" % (d, k, e))
            for m in sorted(cwant - chave):
                r.fail("%s|%s|child-not-read|%s" % (d, f.qual, m), where, "%s keyword %r never reads %r in its members" % (d, k, m))
            allowed_all |= have
        read_sets[d] = sorted(set(dr.table) | allowed_all | {spec.ID_KEY[d], "$ref"})
    ctx.extra["schema_key_read_sets"] = read_sets
    # the only schema object a keyword may consult is the one it was called with: `validator.schema` is the *root* document,
    # which coincides with it only at depth 0
    seen = set()
    for f in sorted(t.keyword_funcs(), key=lambda x: x.qual):
        todo = [f]
        while todo:
            g = todo.pop()
            if g in seen:
                continue
            seen.add(g)
            for n in walk_body(g):
                if isinstance(n, ast.Attribute) and n.attr == "schema" and isinstance(n.ctx, ast.Load) and calls.type_of(g, n.value) == "Validator":
                    r.fail("%s|root-schema-read" % g.qual, site(g, n),
                           "%s consults `%s`, the root schema of the validator, not the schema object whose keyword is being applied: "
                           "inside a subschema its siblings are read from the wrong object" % (g.qual, norm(n)))
            for h in calls.successors(g):
                if h.cls is None and h.mod.name in ("_utils", "_validators", "_legacy_validators"):
                    todo.append(h)
    return r


def rule_unknown_no_effect(ctx, rid="R10.2"):
    prog = ctx.prog
    calls = calls_of(prog)
    disp = dispatcher(prog)
    cfg = cfg_of(disp)
    r = ctx.rule(rid, "a key without a table entry has no effect: the lookup-missed edge leads straight back to the loop header", floor=2)
    sem = c02._valsem(ctx, "dispatch_eval")
    if sem is not None and sem["all-errors"] is not None:
        r.fail("%s|unknown-key-effect" % disp.qual, site(disp), sem["all-errors"])
        return r
    if sem is not None:
        r.ok(site(disp) + " [table]", "keys without a table entry (several spellings) call nothing and change nothing (evaluated with recording keyword functions)")
        # the table fixes the behaviour for the key names it contains; that *no* key name is special needs the path rule below.  It
        # is applied when the dispatcher has the shape it can read; otherwise the table stands alone (NOTE)
        try:
            c02.keyword_loop(prog, disp)
        except AnalysisError as why:
            r.ok(site(disp) + " [path rule]", "NOT DECIDED for arbitrary key names: %s" % why)
            r.note(site(disp), "unknown-key path rule not applicable to this dispatcher shape (%s); decided on the table only" % why)
            return r
    loop, dnode, dcall = c02.keyword_loop(prog, disp)
    fn = dcall.func
    if not isinstance(fn, ast.Name):
        r.fail("%s|callee-shape" % disp.qual, site(disp, dcall), "keyword function callee is not a plain local")
        return r
    rd = reaching_defs(cfg)
    defs = [cfg.nodes[d] for d in rd[dnode.id].get(fn.id, ())]
    tgt = loop.ast.target
    keyvar = tgt.elts[0].id if isinstance(tgt, ast.Tuple) and isinstance(tgt.elts[0], ast.Name) else None
    if keyvar is None:
        r.fail("%s|loop-target" % disp.qual, site(disp, loop.ast), "keyword loop does not unpack (key, value) pairs")
        return r
    for d in defs:
        v = d.ast.value if isinstance(d.ast, ast.Assign) else None
        ok = (isinstance(v, ast.Call) and isinstance(v.func, ast.Attribute) and v.func.attr == "get" and
              isinstance(v.func.value, ast.Attribute) and v.func.value.attr == "VALIDATORS" and
              calls.type_of(disp, v.func.value.value) in ("Validator", "cls:Validator") and
              len(v.args) == 1 and isinstance(v.args[0], ast.Name) and v.args[0].id == keyvar)
        if ok:
            r.ok(site(disp, d.ast), "callee = own VALIDATORS.get(<loop key>)")
        else:
            r.fail("%s|lookup:%s" % (disp.qual, norm(v)), site(disp, d.ast),
                   "keyword function is not looked up as <own class>.VALIDATORS.get(<loop key>): %s" % norm(v))
    # the None edge
    tests = [n for n in cfg.live if n.kind == "test" and isinstance(n.ast, ast.Compare) and isinstance(n.ast.left, ast.Name)
             and n.ast.left.id == fn.id and len(n.ast.ops) == 1 and isinstance(n.ast.ops[0], (ast.Is, ast.IsNot))
             and const_of(n.ast.comparators[0]) is None and loop in n.loops]
    if not tests:
        r.fail("%s|no-none-test" % disp.qual, site(disp, loop.ast), "no `<callee> is None` test guards the keyword call")
        return r
    for tnode in tests:
        none_label = "true" if isinstance(tnode.ast.ops[0], ast.Is) else "false"
        # walk from the None edge to the loop header: only jumps/joins allowed
        todo = [x for (l, x) in tnode.succ if l == none_label]
        seen = set()
        bad = []
        while todo:
            n = todo.pop()
            if n.id in seen or n is loop:
                continue
            seen.add(n.id)
            if n.kind in ("continue", "join"):
                todo.extend(x for (_l, x) in n.succ)
            else:
                bad.append(n)
        if bad:
            r.fail("%s|none-edge:%s" % (disp.qual, bad[0].text), site(disp, bad[0].ast),
                   "a key without table entry still reaches %s" % bad[0].text)
        else:
            r.ok(site(disp, tnode.ast), "lookup-missed edge -> loop header")
        # and the call is not reachable from entry without passing the not-None edge
        other = "false" if none_label == "true" else "true"
        if not c02.only_via_edge(cfg, dnode, [(tnode, other)], True):
            r.fail("%s|call-not-guarded" % disp.qual, site(disp, dcall), "keyword call reachable without the not-None test")
    return r


def rule_nobody_iterates_schema(ctx, rid="R10.3"):
    prog = ctx.prog
    calls = calls_of(prog)
    disp = dispatcher(prog)
    reach = set(calls.reachable(calls.validation_roots()))
    # constructing a validator (and the resolver it builds for itself) is part of validating with it: a walk over the whole schema
    # there -- to pre-register embedded ids, say -- sees annotations and unknown keywords just the same
    V = calls.V
    ctor_roots = [V.methods[m] for m in ("__init__",) if m in V.methods]
    rc = prog.classes.get("validators.RefResolver")
    if rc is not None:
        ctor_roots += [rc.methods[m] for m in ("__init__", "from_schema") if m in rc.methods]
    reach |= set(calls.reachable(ctor_roots))
    r = ctx.rule(rid, "no function reachable from validation or from constructing a validator, other than the dispatcher's table walk, iterates a schema object", floor=40)
    # the table walk may live in a private helper of the dispatcher (called from nowhere else): then that helper's one
    # `.items()` is the table walk, and the dispatcher itself must not iterate
    disp_own = [x for x in reads_on_names(disp, {calls.param_with_role(disp, "schema")}, "schema", calls, depth=99) if x.kind in ITER_KINDS] \
        if calls.param_with_role(disp, "schema") else []
    walkers = set()
    if not disp_own:
        helpers = calls.with_private_helpers({disp}) - {disp}
        for g in calls.successors(disp):
            # a plain function or a closure that only the dispatcher calls (its definer does not count as a caller)
            called_by = {c for c in prog.funcs.values() if c is not g and any(
                any(t.kind == "func" and t.func is g for t in tg) for (_n, _c, tg) in calls.calls_in(c))}
            if g.cls is None and (g in helpers or called_by <= {disp}):
                walkers.add(g)
    # what a reference resolves to is a schema object too: the function that asked for it hands it on (descend), it does not look inside
    for f in sorted(reach, key=lambda x: x.qual):
        resolved_names = set()
        for n in walk_body(f):
            if isinstance(n, ast.Assign) and isinstance(n.value, ast.Call) and isinstance(n.value.func, ast.Attribute) and n.value.func.attr in ("resolve", "resolve_from_url", "resolve_fragment") \
                    and f.cls is None:
                t = n.targets[0]
                if isinstance(t, ast.Tuple) and len(t.elts) == 2 and isinstance(t.elts[1], ast.Name):
                    resolved_names.add(t.elts[1].id)
                elif isinstance(t, ast.Name) and n.value.func.attr != "resolve":
                    resolved_names.add(t.id)
            elif isinstance(n, ast.With):
                for it in n.items:
                    if isinstance(it.context_expr, ast.Call) and isinstance(it.context_expr.func, ast.Attribute) and it.context_expr.func.attr == "resolving" \
                            and isinstance(it.optional_vars, ast.Name) and f.cls is None:
                        resolved_names.add(it.optional_vars.id)
        if not resolved_names:
            continue
        rs2 = reads_on_names(f, resolved_names, "resolved schema", calls, depth=99)
        looks = [x for x in rs2 if x.kind in ITER_KINDS or x.kind in ("get", "getitem", "in", "pop", "setdefault")]
        if not looks:
            r.ok(site(f) + " [resolved]", "what the reference resolves to (%s) is handed on, not looked into" % ", ".join(sorted(resolved_names)))
        for x in looks:
            r.fail("%s|looks-into-resolved|%s" % (f.qual, norm(x.node)[:50]), site(f, x.node),
                   "%s looks into the schema a reference resolved to (%s): what it finds there -- a bare alias, an annotation next to it -- then changes "
                   "how the reference is followed" % (f.qual, norm(x.node)[:60]))
    for f in sorted(reach, key=lambda x: x.qual):
        sp = calls.param_with_role(f, "schema")
        if sp is None and f in walkers and f.params:
            # the helper's parameter that receives the dispatcher's schema
            for (_n, call, tg) in calls.calls_in(disp):
                if any(t.kind == "func" and t.func is f for t in tg):
                    dsp = calls.param_with_role(disp, "schema")
                    for i, a in enumerate(call.args):
                        if isinstance(a, ast.Name) and a.id == dsp and i < len(f.params):
                            sp = f.params[i]
        if sp is None:
            continue
        rs = reads_on_names(f, {sp}, "schema", calls, depth=99)   # no helper following: each function on its own
        its = [x for x in rs if x.kind in ITER_KINDS]
        if f is disp or (f in walkers and its):
            allowed = [x for x in its if x.kind == "items"]
            for x in its:
                if x.kind == "items" and len(allowed) == 1:
                    r.ok(site(f, x.node), "the dispatcher's table walk")
                else:
                    r.fail("%s|iterates-schema|%s" % (f.qual, norm(x.node)), site(f, x.node), "dispatcher iterates the schema more than once / by %s" % x.kind)
            continue
        if not its:
            r.ok(site(f), "schema parameter %r: keyed reads only" % sp)
        for x in its:
            r.fail("%s|iterates-schema|%s" % (f.qual, norm(x.node)[:60]), site(f, x.node),
                   "iterates / measures / copies the enclosing schema object (%s): unknown keywords become observable" % x.kind)
    return r


def rule_dispatcher_reads(ctx, rid="R10.13"):
    """The dispatcher itself consults one member of a schema object by name -- `$ref` -- and the id through the class's id_of
    (R10.12); every other name reaches it through the table walk only.  A second name it looks up (`$recursiveRef`, `$anchor`,
    `definitions`) makes a keyword the draft does not know change validation."""
    prog = ctx.prog
    calls = calls_of(prog)
    disp = dispatcher(prog)
    r = ctx.rule(rid, "by name the dispatcher (and its helpers) reads only `$ref` from a schema object", floor=1)
    sp = calls.param_with_role(disp, "schema")
    if sp is None:
        r.ok(site(disp), "NOT DECIDED: the dispatcher's schema parameter is not identified")
        r.note(site(disp), "%s not decided" % rid)
        return r
    rs = [x for x in reads_on_names(disp, {sp}, "schema", calls) if x.kind in ("get", "getitem", "in", "pop", "setdefault")]
    id_of_funcs = {d.id_of for d in prog.tables.drafts.values()}
    bad = 0
    for x in rs:
        if x.func in id_of_funcs or x.message_only:
            continue
        if x.key == "$ref":
            r.ok(site(x.func, x.node), "reads `$ref`")
        elif isinstance(x.key, str):
            bad += 1
            r.fail("%s|dispatcher-read|%s" % (x.func.qual, x.key), site(x.func, x.node),
                   "the dispatcher looks up the member %r of every schema object (%s): a keyword none of the four drafts defines changes validation" % (x.key, norm(x.node)[:50]))
        else:
            bad += 1
            r.fail("%s|dispatcher-read|nonconst|%s" % (x.func.qual, norm(x.node)[:40]), site(x.func, x.node),
                   "the dispatcher looks up a member of the schema object under a computed name: %s" % norm(x.node)[:60])
    if not rs:
        r.ok(site(disp), "no keyed read at all (table walk only)")
    return r


def rule_resolver_id_of(ctx, rid="R10.4b"):
    """The per-validator resolver is built with the class's own id_of."""
    prog = ctx.prog
    calls = calls_of(prog)
    V = prog.tables.validator_cls
    init = V.methods.get("__init__")
    r = ctx.rule(rid, "a validator's own resolver is built with the class's id_of", floor=1)
    if init is None:
        raise AnalysisError("Validator.__init__ vanished")
    n_ok = 0
    for n in walk_body(init):
        if isinstance(n, ast.Call):
            for t in calls.callee(init, n):
                if t.kind == "func" and t.func.name == "from_schema":
                    kw = {k.arg: k.value for k in n.keywords}
                    a = kw.get("id_of") or (n.args[1] if len(n.args) > 1 else None)
                    idp = "id_of"
                    if isinstance(a, ast.Name) and a.id == idp or (isinstance(a, ast.Attribute) and a.attr == "ID_OF"):
                        r.ok(site(init, n), "from_schema(..., id_of=%s)" % norm(a))
                    else:
                        r.fail("%s|from_schema-id_of|%s" % (init.qual, norm(a)), site(init, n),
                               "resolver for the validator's schema is built with id_of=%s, not the class's own" % norm(a))
                    n_ok += 1
    if not n_ok:
        r.fail("%s|no-from_schema" % init.qual, site(init), "no RefResolver.from_schema call in Validator.__init__")
    return r


def run(ctx):
    ctx.explanation = (
        "C10 is a statement about which schema keys the code can observe, a static fact. R10.1 computes per draft the "
        "constant keys read from schema-shaped values by each keyword function (through helpers) and compares with the "
        "specification's sibling table; R1.1 compares table keys with the vocabulary; R10.2 checks on the CFG that a key "
        "without table entry leads straight back to the loop header; R10.3 that nothing else iterates a schema object; "
        "R10.4 that id_of reads exactly the draft's id key; R10.5 (=R2.1/R2.1b) that everything next to $ref is ignored.")
    ctx.assume("messages embedding repr(subschema) change textually when an inert key is added; such message-only reads are listed as notes")
    tables.rule_table_vocab(ctx, "R1.1")
    rule_read_set(ctx)
    rule_unknown_no_effect(ctx)
    rule_nobody_iterates_schema(ctx)
    rule_dispatcher_reads(ctx)
    tables.rule_id_key(ctx, "R10.4")
    rule_resolver_id_of(ctx)
    c02.rule_short_circuit(ctx, "R10.5a")
    c02.rule_ref_opaque(ctx, "R10.5b")
    # R10.6: a draft's vocabulary is its class's own table: create() copies the mapping it is given, so a keyword registered on a
    # derived class (const on a re-typed Draft 4) cannot appear in the stock class's table
    from .c16 import rule_create_copies
    rule_create_copies(ctx, "R10.6")
    tables.rule_meta_properties(ctx, "R10.7")
    # R10.8: an empty schema object, one holding only annotations and `true` are the same schema: no keyword function tests a
    # schema-valued keyword by truthiness (`additionalProperties: {}` is not `false`)
    from .c01 import rule_schema_not_a_condition
    rule_schema_not_a_condition(ctx, "R10.8")
    rule_fragment_insensitive(ctx)
    rule_cli_reads_no_id(ctx)
    # R10.11: the resolver does not read `id` / `$id` of documents it retrieves or is handed: the store is keyed by the URLs documents
    # were asked for, whatever spelling of an identifier (of whichever draft) they contain
    from .c15 import rule_store_writes
    rule_store_writes(ctx, "R10.11")
    rule_only_id_of_reads_ids(ctx)


def rule_cli_reads_no_id(ctx, rid="R10.10"):
    """`id` is an identifier in Drafts 3/4 only and `$id` in 6/7 only -- which, is the validator class's knowledge.  The command line
    hands --base-uri to the resolver as it is and the loaded schema to the class; it does not look for either spelling itself
    (decided on the CLI scenario table: schemas carrying `$id`, `id` or both, with --base-uri)."""
    from .clisem import cli_eval
    prog = ctx.prog
    f = prog.func("cli.run")
    r = ctx.rule(rid, "with --base-uri the resolver's base is that URI exactly, whatever id / $id the schema carries (the CLI reads neither)", floor=1)
    if "_clisem" not in ctx.extra:
        try:
            ctx.extra["_clisem"] = cli_eval(prog)
        except RecursionError:
            ctx.extra["_clisem"] = None
    sem = ctx.extra["_clisem"]
    if sem is None:
        r.ok(site(f), "NOT DECIDED: cli.run is outside the evaluated fragment")
        r.note(site(f), "%s not decided" % rid)
    elif sem.get("raises"):
        r.fail("%s|table|raises" % f.qual, site(f), "on the scenario table cli.run %s" % sem["raises"])
    elif sem.get("resolver") is None:
        r.ok(site(f), "six scenarios with $id / id in the schema and --base-uri: RefResolver(base_uri=<as given>, referrer=<the schema>)")
    else:
        r.fail("%s|resolver" % f.qual, site(f), sem["resolver"])
    return r


def rule_fragment_insensitive(ctx, rid="R10.9"):
    """Where a reference lands does not depend on members the draft does not define: resolve_fragment evaluated (sa/tokeval.py) on a
    document and on the same document with annotation / unknown members added that *mention* ids and definitions of their own."""
    from ..tokeval import Ev, Obj, Undecided, PyRaise
    from ..common import find_method
    prog = ctx.prog
    f = find_method(prog, "validators.RefResolver", "resolve_fragment")
    r = ctx.rule(rid, "following a fragment gives the same result whether or not the document has annotation / unknown members that carry ids of their own", floor=1)
    base = {"definitions": {"x": {"type": "integer"}, "item": {"type": "null"}}, "a": {"b": 1}, "properties": {"p": {"$id": "#named", "type": "string"}}}
    extras = {"x-unknown": {"$id": "#item", "id": "#item", "definitions": {"x": {"type": "string"}}, "a": {"b": 2}},
              "examples": [{"$id": "#plain"}, {"id": "#plain"}, {"$id": "#/a/b"}], "default": {"$id": "#item", "id": "#named"}, "$comment": "#item",
              "title": "item", "x-list": [[{"$id": "#deep", "id": "#deep"}]],
              # names later drafts give a meaning to: here they are unknown members like any other
              "$defs": {"x": {"type": "string"}, "item": {"type": "boolean"}, "other": {}}, "$anchor": "item", "$recursiveAnchor": True, "$dynamicAnchor": "named",
              "dependentSchemas": {"a": {"$id": "#item"}}, "unevaluatedProperties": {"$id": "#plain"}, "$vocabulary": {"x": True}, "defs": {"x": 1}}
    frags = ["", "/a", "/a/b", "/definitions/x", "/definitions/item", "item", "plain", "named", "deep", "definitions", "a", "x", "/properties/p", "missing"]
    try:
        diffs = []
        for frag in frags:
            got = []
            for doc in (base, dict(base, **extras), dict(extras, **base)):
                ev = Ev(prog, fuel=20000, real_errors=True)
                recv = Obj(f.cls, {})
                recv.ev = ev
                try:
                    got.append(("value", ev.call_func(f, [recv, doc, frag], {})))
                except PyRaise as pr:
                    got.append(("raises", pr.name))
            first = got[0]
            for other in got[1:]:
                same = first[0] == other[0] and (first[1] is other[1] or first[1] == other[1] or (frag == "" and other[0] == "value"))
                if not same:
                    diffs.append("fragment %r: %s without the extra members, %s with them" % (
                        frag, first[1] if first[0] == "raises" else "resolves to %r" % (first[1],), other[1] if other[0] == "raises" else "resolves to %r" % (other[1],)))
                    break
    except Undecided as u:
        r.ok(site(f), "NOT DECIDED: %s" % u)
        r.note(site(f), "%s not decided" % rid)
        return r
    if diffs:
        r.fail("%s|annotation-sensitive" % f.qual, site(f), diffs[0] + " (annotations, unknown keywords and their contents are not schemas: an id written there designates nothing)")
    else:
        r.ok(site(f), "%d fragments x 3 documents: identical outcomes" % len(frags))
    return r


def rule_only_id_of_reads_ids(ctx, rid="R10.12"):
    """Which member names a document's base URI -- `id`, `$id` or neither -- is the draft's business, and the draft's only window on it
    is the class's id_of function.  Any other code that looks a document up under the literal key "id" or "$id" (the resolver naming
    the referrer, the CLI joining a base URI) makes the spelling of *another* draft significant."""
    prog = ctx.prog
    allowed = {d.id_of for d in prog.tables.drafts.values() if d.id_of is not None}
    if "validators._id_of" in prog.funcs:
        allowed.add(prog.funcs["validators._id_of"])
    r = ctx.rule(rid, "only the id_of functions read the members `id` / `$id` of a schema document", floor=2)
    for f in sorted(prog.funcs.values(), key=lambda x: x.qual):
        hits = []
        for n in walk_body(f):
            k = None
            if isinstance(n, ast.Call) and isinstance(n.func, ast.Attribute) and n.func.attr in ("get", "pop", "setdefault") and n.args and isinstance(n.args[0], ast.Constant):
                k = n.args[0].value
            elif isinstance(n, ast.Subscript) and isinstance(n.slice, ast.Constant):
                k = n.slice.value
            elif isinstance(n, ast.Compare) and len(n.ops) == 1 and isinstance(n.ops[0], (ast.In, ast.NotIn)) and isinstance(n.left, ast.Constant):
                k = n.left.value
            elif isinstance(n, (ast.For, ast.comprehension)) and isinstance(n.iter, (ast.Tuple, ast.List)):
                ks = [x.value for x in n.iter.elts if isinstance(x, ast.Constant)]
                if "$id" in ks or "id" in ks:
                    k = "$id" if "$id" in ks else "id"
            if k in ("id", "$id"):
                hits.append(n)
        if f in allowed:
            if hits:
                r.ok(site(f), "an id_of function: reads %s" % sorted({norm(h)[:30] for h in hits}))
            continue
        for h in hits:
            r.fail("%s|reads-id-key|%s" % (f.qual, norm(h)[:40]), site(f, h),
                   "%s looks a document up under the literal key `%s`: outside id_of the spelling a draft does not define becomes significant" % (f.qual, norm(h)[:50]))
    return r
