"""C16 - deriving checkers and validator classes never disturbs the originals (claimed)."""
import ast

from ..prog import norm, walk_body, walk_local, AnalysisError, Func, Cls
from ..cfg import cfg_of, reaching_defs
from ..calls import calls_of
from ..effects import effects_of, MUTATORS
from ..common import find_method
from ..report import site

FRESH_COPIES = ("dict", "list", "set", "tuple", "frozenset", "pmap", "OrderedDict")


def is_fresh_copy_of(e, names):
    """e builds a new container from one of `names` (dict(x), {**x}, x.copy(), dict(x, **y), {k: v for ... in x.items()})."""
    if isinstance(e, ast.Call):
        if isinstance(e.func, ast.Name) and e.func.id in FRESH_COPIES and e.args and isinstance(e.args[0], ast.Name) and e.args[0].id in names:
            return True
        if isinstance(e.func, ast.Attribute) and e.func.attr == "copy" and isinstance(e.func.value, ast.Name) and e.func.value.id in names and not e.args:
            return True
        if isinstance(e.func, ast.Attribute) and e.func.attr == "deepcopy" and e.args and isinstance(e.args[0], ast.Name) and e.args[0].id in names:
            return True
    if isinstance(e, ast.Dict) and any(k is None and isinstance(v, ast.Name) and v.id in names for k, v in zip(e.keys, e.values)):
        return True
    if isinstance(e, (ast.DictComp, ast.ListComp, ast.SetComp)):
        return any(x.id in names for x in ast.walk(e) if isinstance(x, ast.Name))
    return False


def rule_create_copies(ctx, rid="R16.1"):
    prog = ctx.prog
    V = prog.tables.validator_cls
    r = ctx.rule(rid, "create() binds fresh copies of its mapping arguments into the new class", floor=3)
    from .c02 import _valsem
    sem = _valsem(ctx, "classes_eval")
    if sem is not None:
        # decided on a class made by running create() inside the definitional interpreter, then changing the caller's mapping
        if sem["create-copies"] is None:
            for attr in ("VALIDATORS", "META_SCHEMA"):
                r.ok("jsonschema/validators.py Validator.%s" % attr, "an equal but separate copy of the mapping given to create()")
            r.ok("jsonschema/validators.py Validator [later change]", "a key added to the caller's mapping afterwards does not reach the class")
        else:
            r.fail("Validator.VALIDATORS|binding|semantic", "jsonschema/validators.py create.Validator", sem["create-copies"])
        return r
    create = prog.tables.create
    pnames = set(create.all_params)
    for attr, param in (("VALIDATORS", "validators"), ("META_SCHEMA", "meta_schema"), ("_DEFAULT_TYPES", "default_types")):
        v = V.attrs.get(attr)
        where = "jsonschema/validators.py:%d Validator.%s" % (getattr(v, "lineno", V.node.lineno), attr)
        if v is None:
            r.fail("Validator.%s|missing" % attr, where, "class attribute %s vanished" % attr)
        elif is_fresh_copy_of(v, {param}):
            r.ok(where, "= %s (fresh container built from the %s argument)" % (norm(v), param))
        elif isinstance(v, ast.Name) and v.id in pnames:
            r.fail("Validator.%s|aliased|%s" % (attr, norm(v)), where,
                   "%s is the caller's %s object itself: later changes to either are visible in the other" % (attr, param))
        else:
            r.fail("Validator.%s|binding|%s" % (attr, norm(v)), where, "%s = %s is not a fresh copy of the %s argument" % (attr, norm(v), param))
    return r


def rule_extend(ctx, rid="R16.2"):
    prog = ctx.prog
    calls = calls_of(prog)
    eff = effects_of(prog)
    f = prog.func("validators.extend")
    create = prog.tables.create
    r = ctx.rule(rid, "extend() copies the parent's keyword table before updating it and forwards every class-level input to create()", floor=6)
    parent = f.params[0]
    # (a) no write to anything reachable from the parent class or the arguments
    bad = [(w, t) for (w, t) in eff.nonlocal_writes(f)]
    if bad:
        for w, t in bad:
            r.fail("%s|write|%s" % (f.qual, w.text), site(f, w.node), "extend() modifies %s (%s): the parent class or the caller's mapping is disturbed" % (w.text, t))
    else:
        r.ok(site(f), "no write to the parent class or to the arguments")
    from .c02 import _valsem
    sem = _valsem(ctx, "classes_eval")
    if sem is not None:
        if sem["extend"] is None:
            for what in ("table = parent's + overrides", "parent's table untouched", "metaschema carried", "type checker: parent's unless given",
                         "ids read as the parent reads them", "no-change extend gives an equal, separate class"):
                r.ok(site(f) + " [%s]" % what, "holds for classes extended inside the definitional interpreter")
        else:
            kind = "forward|type_checker" if "type checker" in sem["extend"] else ("forward|id_of" if "ids" in sem["extend"] else "table-copy")
            r.fail("%s|%s" % (f.qual, kind), site(f), sem["extend"])
        return r
    # (b) the updated mapping is a fresh copy of parent.VALIDATORS
    ups = [n for n in walk_body(f) if isinstance(n, ast.Call) and isinstance(n.func, ast.Attribute) and n.func.attr == "update"]
    cc = [n for n in walk_body(f) if isinstance(n, ast.Call) and any(t.kind == "func" and t.func is create for t in calls.callee(f, n))]
    if len(cc) != 1:
        r.fail("%s|create-calls:%d" % (f.qual, len(cc)), site(f), "extend() must end in exactly one create() call")
        return r
    c = cc[0]
    kw = {k.arg: k.value for k in c.keywords}
    for i, a in enumerate(c.args):
        kw[create.params[i]] = a
    vv = kw.get("validators")
    ok = False
    if isinstance(vv, ast.Name):
        defs = [n for n in walk_body(f) if isinstance(n, ast.Assign) and any(isinstance(t, ast.Name) and t.id == vv.id for t in n.targets)]
        if len(defs) == 1:
            d = defs[0].value
            src_ok = (isinstance(d, ast.Call) and isinstance(d.func, ast.Name) and d.func.id in FRESH_COPIES and d.args
                      and norm(d.args[0]) == "%s.VALIDATORS" % parent) or \
                     (isinstance(d, ast.Dict) and any(k is None and norm(v) == "%s.VALIDATORS" % parent for k, v in zip(d.keys, d.values))) or \
                     (isinstance(d, ast.Call) and norm(d.func) == "%s.VALIDATORS.copy" % parent)
            upd = [u for u in ups if isinstance(u.func.value, ast.Name) and u.func.value.id == vv.id and [norm(a) for a in u.args] == [f.params[1]]]
            merged_inline = isinstance(d, ast.Dict) and any(k is None and norm(v) == f.params[1] for k, v in zip(d.keys, d.values))
            ok = src_ok and (len(upd) == 1 or merged_inline)
    elif isinstance(vv, ast.Dict):
        stars = [norm(v) for k, v in zip(vv.keys, vv.values) if k is None]
        ok = stars == ["%s.VALIDATORS" % parent, f.params[1]]
    if ok:
        r.ok(site(f, c), "validators = fresh copy of %s.VALIDATORS updated with the overrides" % parent)
    else:
        r.fail("%s|table-copy" % f.qual, site(f, c), "the table passed to create() is not a fresh copy of the parent's table updated with the overrides")
    # (c) forwarding
    fw = {"meta_schema": "%s.META_SCHEMA" % parent, "id_of": "%s.ID_OF" % parent, "version": f.params[2] if len(f.params) > 2 else "version"}
    for p, want in fw.items():
        got = kw.get(p)
        if got is not None and norm(got) == want:
            r.ok(site(f, c) + " [%s]" % p, "%s=%s" % (p, want))
        else:
            r.fail("%s|forward|%s|%s" % (f.qual, p, norm(got)), site(f, c),
                   "create() parameter %r is not forwarded from the parent (%s expected, got %s): the derived class silently falls back to create()'s default" % (p, want, norm(got)))
    tc = kw.get("type_checker")
    tc_ok = False
    if isinstance(tc, ast.Name):
        for n in walk_body(f):
            if isinstance(n, ast.If) and norm(n.test) == "%s is None" % tc.id and any(
                    norm(s) == "%s = %s.TYPE_CHECKER" % (tc.id, parent) for s in n.body):
                tc_ok = True
        # or through a helper: <tc> = helper(<parent>, <tc>) where helper returns <p0>.TYPE_CHECKER when <p1> is None and <p1> otherwise
        for n in walk_body(f):
            if isinstance(n, ast.Assign) and any(isinstance(t, ast.Name) and t.id == tc.id for t in n.targets) and isinstance(n.value, ast.Call):
                for t in calls.callee(f, n.value):
                    if t.kind == "func" and t.func is not None and [norm(a) for a in n.value.args] == [parent, tc.id] and len(t.func.params) == 2:
                        g = t.func
                        p0, p1 = g.params
                        carried = any(isinstance(x, ast.If) and norm(x.test) == "%s is None" % p1 and any(
                            isinstance(y, ast.Return) and norm(y.value) == "%s.TYPE_CHECKER" % p0 for y in x.body) for x in walk_body(g))
                        given = any(isinstance(x, ast.Return) and norm(x.value) == p1 for x in g.body)
                        if carried and given:
                            tc_ok = True
    if tc_ok:
        r.ok(site(f, c) + " [type_checker]", "parent's TYPE_CHECKER unless one is given")
    else:
        r.fail("%s|forward|type_checker" % f.qual, site(f, c), "the parent's type checker is not carried along when none is given")
    # (d) every create() parameter is passed or has a draft-independent default
    passed = set(kw)
    for p in create.params:
        if p in passed:
            continue
        if p == "default_types":
            r.ok(site(f, c) + " [default_types]", "legacy parameter: not forwarded, its default (None) is draft-independent")
        else:
            r.fail("%s|not-forwarded|%s" % (f.qual, p), site(f, c), "create() parameter %r is not passed by extend()" % p)
    return r


def rule_types_rebind(ctx, rid="R16.3"):
    prog = ctx.prog
    calls = calls_of(prog)
    eff = effects_of(prog)
    V = calls.V
    init = V.methods["__init__"]
    r = ctx.rule(rid, "Validator(types=...) rebinds the type checker on the instance, never on the class", floor=1)
    s = init.params[0]
    found = 0
    for n in walk_body(init):
        if isinstance(n, ast.Assign):
            for t in n.targets:
                if isinstance(t, ast.Attribute) and t.attr == "TYPE_CHECKER":
                    found += 1
                    if isinstance(t.value, ast.Name) and t.value.id == s:
                        v = n.value
                        fn = v.func if isinstance(v, ast.Call) else None
                        if isinstance(fn, ast.Name):
                            # the bound method held in a local bound once: `redefine_many = self.TYPE_CHECKER.redefine_many`
                            defs = [a.value for a in walk_body(init) if isinstance(a, ast.Assign) and any(isinstance(x, ast.Name) and x.id == fn.id for x in a.targets)]
                            if len(defs) == 1 and fn.id not in init.all_params:
                                fn = defs[0]
                        pure = isinstance(fn, ast.Attribute) and fn.attr in ("redefine_many", "redefine", "remove") and \
                            norm(fn.value) in ("%s.TYPE_CHECKER" % s, "type(%s).TYPE_CHECKER" % s)
                        if pure:
                            r.ok(site(init, n), "%s = %s" % (norm(t), norm(v)[:60]))
                        else:
                            r.fail("%s|rebind-value|%s" % (init.qual, norm(v)[:50]), site(init, n), "instance type checker is not derived through a pure TypeChecker method")
                    else:
                        r.fail("%s|class-rebind|%s" % (init.qual, norm(t)), site(init, n),
                               "%s is assigned: every validator of the class (and subclasses) changes" % norm(t))
    for w, t in eff.nonlocal_writes(init):
        if t[0] == "C":
            r.fail("%s|class-write|%s" % (init.qual, w.text), site(init, w.node), "Validator.__init__ writes class state: %s" % w.text)
    if not found:
        r.fail("%s|no-rebind" % init.qual, site(init), "types= is no longer applied")
    return r


def rule_typechecker_persistent(ctx, rid="R16.4"):
    prog = ctx.prog
    eff = effects_of(prog)
    c = prog.cls("_types.TypeChecker")
    r = ctx.rule(rid, "TypeChecker is frozen over a persistent map; redefine/redefine_many/remove return evolved copies", floor=5)
    decos = [norm(d) for d in c.node.decorator_list]
    if any("frozen=True" in d and d.startswith("attr.") for d in decos):
        r.ok("jsonschema/_types.py TypeChecker", "decorated %s" % decos)
    else:
        r.fail("_types.TypeChecker|not-frozen|%s" % decos, "jsonschema/_types.py TypeChecker", "TypeChecker is not a frozen attrs class: %s" % decos)
    fld = c.attrs.get("_type_checkers")
    conv = None
    if isinstance(fld, ast.Call):
        conv = next((norm(k.value) for k in fld.keywords if k.arg == "converter"), None)
    if conv == "pmap":
        r.ok("jsonschema/_types.py TypeChecker._type_checkers", "attr.ib(converter=pmap): persistent map")
    else:
        r.fail("_types.TypeChecker._type_checkers|converter|%s" % conv, "jsonschema/_types.py TypeChecker._type_checkers",
               "field converter is %s, not pmap: .update()/.remove() would mutate a map shared with other checkers" % conv)
    # every field: attr.evolve hands the fields it is not told about on to the copy *as they are*, so a mutable one (a dict used as
    # a memo) is shared between a checker and everything derived from it
    for fname, fexpr in sorted(c.attrs.items()):
        if not (isinstance(fexpr, ast.Call) and norm(fexpr.func) in ("attr.ib", "attr.attrib", "attrib", "ib")) or fname == "_type_checkers":
            continue
        kws = {k.arg: k.value for k in fexpr.keywords}
        mutable = None
        if "factory" in kws and norm(kws["factory"]) in ("dict", "list", "set", "collections.OrderedDict", "OrderedDict", "collections.defaultdict"):
            mutable = "factory=%s" % norm(kws["factory"])
        elif "default" in kws and (isinstance(kws["default"], (ast.Dict, ast.List, ast.Set)) or
                                   (isinstance(kws["default"], ast.Call) and norm(kws["default"].func) in ("dict", "list", "set", "attr.Factory", "Factory"))):
            mutable = "default=%s" % norm(kws["default"])
        conv2 = norm(kws["converter"]) if "converter" in kws else None
        if mutable and conv2 not in ("pmap", "pvector", "tuple", "frozenset"):
            r.fail("_types.TypeChecker.%s|mutable-field|%s" % (fname, mutable), "jsonschema/_types.py TypeChecker.%s" % fname,
                   "field %s holds a mutable object (%s): attr.evolve passes it on unchanged, so checkers derived with redefine/remove share it with their parent" % (fname, mutable))
        else:
            r.ok("jsonschema/_types.py TypeChecker.%s" % fname, "immutable field")
    probe = c.methods.get("is_type")
    if probe is not None:
        for w, t in eff.nonlocal_writes(probe):
            r.fail("%s|write|%s" % (probe.qual, w.text[:40]), site(probe, w.node), "is_type writes %s: asking one checker a question changes what it (and its relatives) answer later" % w.text[:50])
    for name in ("redefine", "redefine_many", "remove"):
        m = c.methods.get(name)
        if m is None:
            r.fail("_types.TypeChecker|missing|%s" % name, "jsonschema/_types.py", "method %s vanished" % name)
            continue
        writes = eff.nonlocal_writes(m)
        rets = [n for n in walk_body(m) if isinstance(n, ast.Return)]
        good = bool(rets) and all(isinstance(x.value, ast.Call) and (norm(x.value.func) == "attr.evolve" and norm(x.value.args[0]) == m.params[0]
                                  or (isinstance(x.value.func, ast.Attribute) and norm(x.value.func.value) == m.params[0]
                                      and x.value.func.attr in ("redefine", "redefine_many", "remove"))) for x in rets)
        if writes:
            for w, t in writes:
                r.fail("%s|write|%s" % (m.qual, w.text), site(m, w.node), "%s mutates %s" % (name, w.text))
        elif good:
            r.ok(site(m), "no store; returns attr.evolve(self, ...) or a sibling that does")
        else:
            r.fail("%s|return" % m.qual, site(m), "%s does not return an evolved copy" % name)
    return r


def rule_formatchecker_owns(ctx, rid="R16.5"):
    prog = ctx.prog
    calls = calls_of(prog)
    eff = effects_of(prog)
    c = prog.cls("_format.FormatChecker")
    init = c.methods["__init__"]
    cfg = cfg_of(init)
    r = ctx.rule(rid, "every FormatChecker instance gets its own registry dict; only checks()/cls_checks() write a registry", floor=3)
    s = init.params[0]
    assigns = [n for n in cfg.live if n.kind == "stmt" and isinstance(n.ast, ast.Assign) and norm(n.ast.targets[0]) == "%s.checkers" % s]
    # every path from entry to the normal exits passes one of the assignments
    seen, todo, leak = set(), [cfg.entry], False
    while todo:
        x = todo.pop()
        if x.id in seen or x in assigns:
            continue
        seen.add(x.id)
        if x.kind == "exit" and x.info in ("fall", "return"):
            leak = True
        todo.extend(y for (l, y) in x.succ if l != "exc")
    if leak or not assigns:
        r.fail("%s|path-without-own-registry" % init.qual, site(init), "a path through __init__ leaves self.checkers to the class-level dict: instance registrations would become class-wide")
    for n in assigns:
        v = n.ast.value
        fresh = (isinstance(v, ast.Call) and ((isinstance(v.func, ast.Attribute) and v.func.attr == "copy") or
                                              (isinstance(v.func, ast.Name) and v.func.id == "dict"))) or isinstance(v, (ast.DictComp, ast.Dict))
        if not fresh:
            # a local that only ever holds dicts created in this function (table = {}; for k in formats: table[k] = ...)
            tags = eff.expr_tags(init, v)
            fresh = bool(tags) and all(t[0] in ("F", "EL") for t in tags)
        if fresh:
            r.ok(site(init, n.ast), "self.checkers = %s (fresh dict)" % norm(v)[:60])
        else:
            r.fail("%s|aliased-registry|%s" % (init.qual, norm(v)[:50]), site(init, n.ast), "self.checkers = %s aliases another registry" % norm(v)[:70])
    # who writes FormatChecker.checkers
    n_w = 0
    for f in prog.funcs.values():
        for w in eff.direct_writes(f):
            for t in w.locs:
                if (t[0] == "FLD" and t[1] == "FormatChecker" and t[2] == "checkers") or (t[0] == "C" and t[1] == "FormatChecker" and t[2] == "checkers"):
                    if f.qual == "_format.FormatChecker.checks._checks" or (f is init and len(t) == 4):
                        n_w += 1
                    else:
                        r.fail("%s|registry-write|%s" % (f.qual, w.text), site(f, w.node), "format registry written outside checks(): %s" % w.text)
    if n_w:
        r.ok(site(c.methods["checks"]), "the only registry writers: __init__ (own dict) and checks()._checks")
    if c.attrs.get("cls_checks") is not None and norm(c.attrs["cls_checks"]) == "classmethod(checks)":
        r.ok("jsonschema/_format.py FormatChecker.cls_checks", "classmethod(checks): class-wide registration writes the class dict, copied by later instances")
    else:
        r.fail("_format.FormatChecker.cls_checks|shape", "jsonschema/_format.py FormatChecker.cls_checks", "cls_checks is not classmethod(checks)")
    return r


def _four_checkers_eval(prog):
    """The module-level bindings of the four draft checkers evaluated by sa/tokeval.py (each module-level expression once, as at
    import): -> {draft: None | (tag, message)}; None when outside the evaluated fragment."""
    from ..tokeval import Ev, Obj, Undecided, PyRaise
    ev = Ev(prog, fuel=20000)
    try:
        objs = {d: ev.module_value("_format", "%s_format_checker" % d) for d in ("draft3", "draft4", "draft6", "draft7")}
        fc = prog.cls("_format.FormatChecker")
        cls_reg = ev.class_attr(fc, "checkers") if "checkers" in fc.attrs else None
    except (Undecided, PyRaise, RecursionError, KeyError, AttributeError):
        return None
    out = {}
    for d, o in objs.items():
        out[d] = None
        if not (isinstance(o, Obj) and o.cls.name == "FormatChecker"):
            return None
        reg = o.attrs.get("checkers")
        if not isinstance(reg, dict):
            return None
        for d2, o2 in objs.items():
            if d2 < d and (o2 is o or (isinstance(o2, Obj) and o2.attrs.get("checkers") is reg)):
                out[d] = ("with-%s" % d2, "%s_format_checker and %s_format_checker are one object (or share one registry): a format "
                          "registered for one draft is checked under the other" % (d2, d))
        if cls_reg is not None and reg is cls_reg:
            out[d] = ("with-class", "%s_format_checker's registry is the class-level FormatChecker.checkers itself" % d)
    return out


def rule_four_checkers(ctx, rid="R16.6"):
    prog = ctx.prog
    m = prog.mod("_format")
    r = ctx.rule(rid, "the four draft format checkers are four separately constructed objects", floor=4)
    sem = _four_checkers_eval(prog)
    for d in ("draft3", "draft4", "draft6", "draft7"):
        name = "%s_format_checker" % d
        binds = m.bindings.get(name, [])
        ok = len(binds) == 1 and isinstance(binds[0][0], ast.Call) and norm(binds[0][0].func) == "FormatChecker" and \
            isinstance(binds[0][1], ast.Assign) and len(binds[0][1].targets) == 1
        if sem is not None and sem.get(d):
            r.fail("_format.%s|shared|%s" % (name, sem[d][0]), "jsonschema/_format.py %s" % name, sem[d][1])
        elif not ok and sem is not None and len(binds) == 1:
            r.ok("jsonschema/_format.py:%d %s" % (binds[0][1].lineno, name),
                 "= %s: evaluated (sa/tokeval.py) to a FormatChecker of its own, with a registry of its own" % norm(binds[0][0])[:60])
        elif ok:
            r.ok("jsonschema/_format.py:%d %s" % (binds[0][1].lineno, name), "= FormatChecker() (own call)")
        else:
            r.fail("_format.%s|binding|%s" % (name, ";".join(norm(b[0]) for b in binds)), "jsonschema/_format.py %s" % name,
                   "%s is not bound by its own FormatChecker() call (chained assignment or alias shares one registry between drafts)" % name)
    return r


def rule_no_foreign_table_writes(ctx, rid="R16.7"):
    prog = ctx.prog
    calls = calls_of(prog)
    eff = effects_of(prog)
    r = ctx.rule(rid, "no function stores into VALIDATORS / META_SCHEMA / TYPE_CHECKER / ID_OF of a class it received or looked up", floor=20)
    tbl = {"VALIDATORS", "META_SCHEMA", "TYPE_CHECKER", "ID_OF", "_DEFAULT_TYPES", "DEFAULT_TYPES", "_CREATED_WITH_DEFAULT_TYPES"}
    V = calls.V
    # module level: a name bound to `SomeValidator.VALIDATORS` is that class's table itself; a store through it changes the class
    for (cls_var, alias, key, st) in getattr(prog.tables, "alias_writes", []):
        r.fail("validators|table-write|%s[%r]" % (alias, key), "jsonschema/validators.py:%d" % st.lineno,
               "`%s[%r] = ...` at module level stores into %s.VALIDATORS (`%s` is that very dict, not a copy): the existing class gains or loses a keyword" % (
                   alias, key, cls_var, alias))
    for f in sorted(prog.funcs.values(), key=lambda x: x.qual):
        bad = []
        for w in eff.direct_writes(f):
            txt = w.text
            for t in w.locs:
                attr = None
                if t[0] == "C" and len(t) >= 3:
                    attr = t[2]
                elif t[0] == "FLD" and t[1] == "Validator" and t[2] in tbl:
                    # self.TYPE_CHECKER = ... in __init__ is the instance rebinding (R16.3)
                    if f is V.methods["__init__"] and len(t) == 4 and t[2] == "TYPE_CHECKER":
                        continue
                    attr = t[2]
                if attr in tbl:
                    bad.append((w, t))
            # mutation through an attribute chain on an untyped object: X.VALIDATORS[...] = / X.VALIDATORS.update(...)
            if any(("." + a) in txt for a in tbl) and w.how != "store-attr" and not any(t[0] == "F" for t in w.locs):
                if not any(b[0] is w for b in bad):
                    bad.append((w, ("attr-chain",)))
        if bad:
            for w, t in bad:
                r.fail("%s|table-write|%s" % (f.qual, w.text), site(f, w.node), "%s writes a validator class's table: %s" % (f.qual, w.text))
        else:
            r.ok(site(f), "")
    return r


def rule_api_writes_no_shared_state(ctx, rid="R16.9"):
    """create, extend, check_schema, constructing a validator and the TypeChecker/FormatChecker probes keep no module- or
    class-level state of their own: the only shared tables are the two registries written by validates() and the format
    registries written by checks()."""
    prog = ctx.prog
    calls = calls_of(prog)
    eff = effects_of(prog)
    V = calls.V
    roots = [prog.tables.create, prog.func("validators.extend"), V.methods["__init__"], V.methods["check_schema"],
             prog.func("validators.validator_for")]
    roots += [m for n, m in prog.cls("_types.TypeChecker").methods.items()]
    roots += [prog.cls("_format.FormatChecker").methods[n] for n in ("__init__", "check", "conforms")]
    allowed_writers = {g.qual for g in calls.registration_writers("validators") | calls.registration_writers("formats")}
    reach = calls.reachable(roots)
    r = ctx.rule(rid, "deriving, constructing and probing write no module-level or class-level state (other than the registries, through their one writer)", floor=30)
    for f in sorted(reach, key=lambda x: x.qual):
        if f.qual in allowed_writers:
            r.ok(site(f), "the registration writer")
            continue
        bad = []
        for w, t in eff.nonlocal_writes(f):
            if t[0] in ("G", "D", "M", "CLS"):
                bad.append((w, t))
            elif t[0] == "C":
                # binding attributes of the class being created inside create() is construction, not sharing
                if f is prog.tables.create and str(t[1]).endswith("create.Validator"):
                    continue
                bad.append((w, t))
        if not bad:
            r.ok(site(f), "")
        for w, t in bad:
            r.fail("%s|shared-state|%s" % (f.qual, w.text[:40]), site(f, w.node),
                   "%s writes shared state %s (%s): what an earlier-created class/checker does then depends on later operations" % (f.qual, w.text[:50], t))
    return r


def rule_no_keyword_coupling(ctx, rid="R16.13"):
    """"Overriding one keyword changes the behaviour of that keyword only": a keyword function that validates against a schema it
    writes itself (`validator.is_valid(instance, {"enum": [const]})`) routes its verdict through the class's table entry for *another*
    keyword, so extend(Parent, {"enum": f}) changes `const` as well.  The one coupling the pinned tree has -- Draft 3 `disallow`,
    defined by the draft as the negation of `type` -- is listed, with its reason."""
    prog = ctx.prog
    calls = calls_of(prog)
    allowed = {("disallow", "type"): "Draft 3 defines disallow as 'not one of these types': it is specified in terms of the type keyword"}
    vocab = set()
    for d in prog.tables.drafts.values():
        vocab |= set(d.table)
    kwf = prog.tables.keyword_funcs()
    r = ctx.rule(rid, "no keyword function decides by validating against a schema literal that names another keyword (the derived class's table "
                      "entry for that keyword would change this one too)", floor=30)
    for f in sorted(kwf, key=lambda x: x.qual):
        own = {k for (_d, k) in kwf[f]}
        found = []
        lits = {}
        for n in walk_body(f):
            if isinstance(n, ast.Assign) and len(n.targets) == 1 and isinstance(n.targets[0], ast.Name) and isinstance(n.value, ast.Dict):
                lits.setdefault(n.targets[0].id, []).append(n.value)
        for n in walk_body(f):
            if isinstance(n, ast.Call) and isinstance(n.func, ast.Attribute) and n.func.attr in ("is_valid", "descend", "iter_errors", "validate"):
                for a in list(n.args) + [k.value for k in n.keywords]:
                    cands = [a] if isinstance(a, ast.Dict) else (lits.get(a.id, []) if isinstance(a, ast.Name) else [])
                    for dct in cands:
                        for k in dct.keys:
                            if isinstance(k, ast.Constant) and isinstance(k.value, str) and k.value in vocab and k.value not in own:
                                found.append((n, k.value))
        if not found:
            r.ok(site(f), "%s: validates only against (parts of) the schema it was given" % "/".join(sorted(own)))
        for n, other in found:
            why = next((allowed[(o, other)] for o in own if (o, other) in allowed), None)
            if why:
                r.ok(site(f, n), "%s -> %s: %s" % ("/".join(sorted(own)), other, why))
            else:
                r.fail("%s|keyword-coupling|%s" % (f.qual, other), site(f, n),
                       "the function for %s decides through `%s`: the verdict goes through the class's entry for %r, so a class derived with "
                       "extend(..., {%r: f}) changes %s as well" % ("/".join(sorted(own)), norm(n)[:60], other, other, "/".join(sorted(own))))
    return r


def run(ctx):
    ctx.explanation = (
        "C16 as ownership/aliasing rules: R16.1 create() binds fresh copies; R16.2 extend() writes nothing reachable from the "
        "parent or its arguments, updates a fresh copy, and forwards meta_schema/id_of/type_checker/version; R16.3 types= "
        "rebinds on the instance; R16.4 TypeChecker frozen over pmap with evolve-returning methods; R16.5 every path through "
        "FormatChecker.__init__ binds a fresh dict and only checks() writes registries; R16.6 four draft checkers are four "
        "constructor calls; R16.7 nobody stores into another class's tables.")
    ctx.assume("attrs frozen classes reject attribute assignment; pyrsistent.pmap update/remove/set return new maps")
    rule_create_copies(ctx)
    rule_extend(ctx)
    rule_types_rebind(ctx)
    rule_typechecker_persistent(ctx)
    rule_formatchecker_owns(ctx)
    rule_four_checkers(ctx)
    rule_no_foreign_table_writes(ctx)
    rule_api_writes_no_shared_state(ctx)
    rule_no_keyword_coupling(ctx)
    # R16.14: parent and child dispatch a schema's keywords alike (same order, same functions for the keywords not overridden)
    from .c05 import rule_dispatcher_complete
    rule_dispatcher_complete(ctx, "R16.14")
    # R16.15: check_schema is about the class it is called on: registering or deriving another class later does not change it
    from .c11 import rule_wiring
    rule_wiring(ctx, "R16.15")
    # R16.16: a validator's resolver -- and with it the snapshot of registered metaschemas -- is made when the validator is made
    from .c18 import rule_per_validator_resolver
    rule_per_validator_resolver(ctx, "R16.16")
    # R16.10: a resolver snapshots the registry at construction; nothing on the validation path reads the live registry, so a
    # later registration cannot change what an existing validator resolves
    from .c18 import rule_registry_read_only
    rule_registry_read_only(ctx, "R16.10")
    # R16.11: a class created with its own metaschema and a validator built with its own schema look ids up in a store where the
    # document in hand wins over anything registered earlier under the same id
    from .c15 import rule_seeding
    rule_seeding(ctx, "R16.11")
    # R16.12: creating a class adds one registry entry, under the class's own metaschema id as written, and touches no other
    from .c20 import rule_registration
    rule_registration(ctx, "R16.12")
