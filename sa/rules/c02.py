"""C02 - $ref transparency (partial: structural clauses)."""
import ast

from ..prog import norm, walk_local, AnalysisError, walk_body
from ..cfg import cfg_of, reaching_defs, node_exprs, walk_expr, node_defs
from ..calls import calls_of
from ..common import calls_at, dispatcher, const_of, stamper
from ..report import site
from . import scope


def schema_param(prog, disp):
    calls = calls_of(prog)
    p = calls.param_with_role(disp, "schema")
    if p is None:
        raise AnalysisError("dispatcher has no schema parameter")
    return p


def reads_of_schema(calls, f, node, sp):
    """Schema-key reads performed at `node` on the schema object `sp`: list of (kind, key-or-None, ast)."""
    out = []
    for e in node_exprs(node):
        for sub in walk_expr(e):
            if isinstance(sub, ast.Call):
                fn = sub.func
                if isinstance(fn, ast.Attribute) and isinstance(fn.value, ast.Name) and fn.value.id == sp:
                    key = const_of(sub.args[0]) if sub.args else None
                    out.append((fn.attr, key, sub))
                else:
                    args = list(sub.args) + [k.value for k in sub.keywords]
                    if any(isinstance(a, ast.Name) and a.id == sp for a in args):
                        tg = calls.callee(f, sub)
                        for t in tg:
                            if t.kind == "dynamic" and t.name == "keyword-dispatch":
                                continue
                            if t.kind == "func" and t.func is stamper(calls.prog):
                                continue
                            if t.kind == "dynamic" and t.name == "id_of":
                                out.append(("id_of", None, sub))
                            elif t.kind == "builtin" and t.name in ("isinstance",):
                                continue
                            elif t.kind == "class":
                                continue    # building an error object that records the schema
                            else:
                                out.append(("call:" + (t.name or (t.func.qual if t.func else "?")), None, sub))
            elif isinstance(sub, ast.Subscript) and isinstance(sub.value, ast.Name) and sub.value.id == sp:
                out.append(("getitem", const_of(sub.slice), sub))
            elif isinstance(sub, ast.Compare) and any(isinstance(o, (ast.In, ast.NotIn)) for o in sub.ops):
                if any(isinstance(c, ast.Name) and c.id == sp for c in sub.comparators):
                    out.append(("in", const_of(sub.left), sub))
    if node.kind == "for" and isinstance(node.ast.iter, ast.Name) and node.ast.iter.id == sp:
        out.append(("iter", None, node.ast.iter))
    return out


def find_ref_test(prog, disp):
    """Locate the `$ref` lookup, the variable holding it and the test node deciding presence.
    Returns (lookup_node, refvar, test_node, present_label)."""
    calls = calls_of(prog)
    cfg = cfg_of(disp)
    sp = schema_param(prog, disp)
    lookup = refvar = None
    for n in cfg.live:
        for kind, key, a in reads_of_schema(calls, disp, n, sp):
            if key == "$ref" and kind in ("get", "getitem"):
                if n.kind == "stmt" and isinstance(n.ast, ast.Assign) and len(n.ast.targets) == 1 and isinstance(
                        n.ast.targets[0], ast.Name):
                    lookup, refvar = n, n.ast.targets[0].id
    if lookup is None:
        raise AnalysisError("dispatcher: cannot find the assignment that reads \"$ref\" from the schema")
    tests = []
    for n in cfg.live:
        if n.kind != "test":
            continue
        pol = ref_test_polarity(n.ast, refvar)
        if pol is not None:
            tests.append((n, "true" if pol else "false"))
    if not tests:
        truthy = [n for n in cfg.live if n.kind == "test" and isinstance(n.ast, ast.Name) and n.ast.id == refvar]
        if truthy:
            # presence decided by truthiness: {"$ref": ""} is present but falsy
            return lookup, refvar, [("truthiness", truthy[0])]
        raise AnalysisError("dispatcher: no `%s is (not) None` test found" % refvar)
    return lookup, refvar, tests


def ref_test_polarity(e, refvar):
    """True if e is `ref is not None`, False if `ref is None`, else None."""
    if isinstance(e, ast.Compare) and len(e.ops) == 1 and isinstance(e.left, ast.Name) and e.left.id == refvar \
            and isinstance(e.comparators[0], ast.Constant) and e.comparators[0].value is None:
        if isinstance(e.ops[0], ast.IsNot):
            return True
        if isinstance(e.ops[0], ast.Is):
            return False
    return None


def only_via_edge(cfg, node, tests, present):
    """True iff every path from entry to `node` takes an edge on which $ref is known present (present=True)
    or known absent (present=False); `tests` = [(test node, label of the present edge)]."""
    cut = set()
    for (t, plabel) in tests:
        cut.add((t.id, plabel if present else ("false" if plabel == "true" else "true")))
    seen = set()
    todo = [cfg.entry]
    while todo:
        n = todo.pop()
        if n.id in seen:
            continue
        seen.add(n.id)
        if n is node:
            return False
        for (l, t) in n.succ:
            if (n.id, l) in cut:
                continue
            todo.append(t)
    return True


def guarded_absent_ids(node, refvar):
    """ids of AST nodes lying in the branch of a conditional expression evaluated only when $ref is absent."""
    out = set()
    for e in node_exprs(node):
        for sub in walk_expr(e):
            if isinstance(sub, ast.IfExp):
                pol = ref_test_polarity(sub.test, refvar)
                if pol is not None:
                    branch = sub.orelse if pol else sub.body
                    for x in walk_expr(branch):
                        out.add(id(x))
    return out


def keyword_loop(prog, disp):
    calls = calls_of(prog)
    cfg = cfg_of(disp)
    for n in cfg.live:
        for (call, tg) in calls_at(calls, disp, n):
            if any(t.kind == "dynamic" and t.name == "keyword-dispatch" for t in tg):
                if not n.loops:
                    raise AnalysisError("keyword dispatch call is not inside a loop")
                return n.loops[-1] if len(n.loops) == 1 else n.loops[0], n, call
    raise AnalysisError("dispatcher: keyword dispatch call (callee drawn from VALIDATORS) not found")



def _valsem(ctx, which):
    """dispatch_eval / entry_points_eval of sa/rules/valsem.py, computed once per run; False when outside the evaluated fragment"""
    from . import valsem
    key = "_valsem_" + which
    if key not in ctx.extra:
        ctx.extra[key] = getattr(valsem, which)(ctx.prog) or False
    v = ctx.extra[key]
    if v and "raises" in v:
        # a scenario of the table made the evaluated code raise something no scenario provides for (an unbound local, a TypeError
        # in the dispatcher): every clause of that table is answered by this
        return _Raised(v)
    return v if v else None


class _Raised(dict):
    def __init__(self, v):
        dict.__init__(self, v)
        self.msg = "on the scenario table the code %s" % v["raises"]

    def __getitem__(self, k):
        return self.msg

    def get(self, k, d=None):
        return self.msg

def rule_short_circuit(ctx, rid="R2.1"):
    prog = ctx.prog
    disp = dispatcher(prog)
    cfg = cfg_of(disp)
    sp = schema_param(prog, disp)
    r = ctx.rule(rid, "when $ref is present the dispatch iterable is the single entry (\"$ref\", value); "
                      "otherwise it is the schema's own items", floor=2)
    sem = _valsem(ctx, "dispatch_eval")
    if sem is not None:
        # decided on the package's own Validator class, built by running create() inside the definitional interpreter with
        # recording keyword functions
        if sem["ref-alone"] is None and sem["all-errors"] is None:
            r.ok(site(disp) + " [$ref]", "next to $ref only the $ref function runs, with the reference (also the empty string) as its value")
            r.ok(site(disp) + " [no $ref]", "without $ref every known key of the schema is dispatched, in order")
        elif sem["ref-alone"] is not None:
            key = "ref-presence-by-truthiness" if "empty-string" in sem["ref-alone"] else "iterable:siblings-dispatched"
            r.fail("%s|%s" % (disp.qual, key), site(disp), sem["ref-alone"])
        else:
            r.fail("%s|iterable:_schema.items()" % disp.qual, site(disp), sem["all-errors"])
        return r
    lookup, refvar, tests = find_ref_test(prog, disp)
    if tests and tests[0][0] == "truthiness":
        t = tests[0][1]
        r.fail("%s|ref-presence-by-truthiness" % disp.qual, site(disp, t.ast),
               "the presence of $ref is decided by the truthiness of its value (`if %s:`): an empty reference string \"\" (a reference to the "
               "document itself) is treated as absent, so its sibling keywords are evaluated and a sibling id is pushed" % refvar)
        return r
    loop, _dn, _call = keyword_loop(prog, disp)
    it = loop.ast.iter
    rd = reaching_defs(cfg)
    if isinstance(it, ast.Name):
        defs = [cfg.nodes[d] for d in rd[loop.id].get(it.id, ())]
    else:
        defs = []
        r.fail("%s|iterable:%s" % (disp.qual, norm(it)), site(disp, loop.ast), "dispatch iterable is not a local selected under the $ref test: %s" % norm(it))
    for d in defs:
        val = d.ast.value if isinstance(d.ast, ast.Assign) else None
        if only_via_edge(cfg, d, tests, True):
            ok = (isinstance(val, (ast.List, ast.Tuple)) and len(val.elts) == 1 and isinstance(val.elts[0], ast.Tuple)
                  and len(val.elts[0].elts) == 2 and const_of(val.elts[0].elts[0]) == "$ref"
                  and isinstance(val.elts[0].elts[1], ast.Name) and val.elts[0].elts[1].id == refvar)
            if ok:
                r.ok(site(disp, d.ast), "ref-present edge: iterable = %s" % norm(val))
            else:
                r.fail("%s|present-def:%s" % (disp.qual, norm(val)), site(disp, d.ast),
                       "with $ref present the keyword loop iterates %s instead of the single (\"$ref\", value) entry" % norm(val))
        elif only_via_edge(cfg, d, tests, False):
            ok = (isinstance(val, ast.Call) and isinstance(val.func, ast.Attribute) and val.func.attr == "items"
                  and isinstance(val.func.value, ast.Name) and val.func.value.id == sp and not val.args)
            if ok:
                r.ok(site(disp, d.ast), "ref-absent edge: iterable = %s" % norm(val))
            else:
                r.fail("%s|absent-def:%s" % (disp.qual, norm(val)), site(disp, d.ast),
                       "without $ref the keyword loop must iterate the schema's items, found %s" % norm(val))
        else:
            r.fail("%s|unconditional-def:%s" % (disp.qual, norm(val)), site(disp, d.ast),
                   "definition of the dispatch iterable is not selected by the $ref test: %s" % norm(d.ast))
    return r


def rule_ref_opaque(ctx, rid="R2.1b"):
    prog = ctx.prog
    calls = calls_of(prog)
    disp = dispatcher(prog)
    cfg = cfg_of(disp)
    sp = schema_param(prog, disp)
    r = ctx.rule(rid, "on the $ref-present path no other key of the same schema object is read (a reference object is opaque)", floor=2)
    sem = _valsem(ctx, "dispatch_eval")
    if sem is not None:
        if sem["ref-alone"] is None:
            r.ok(site(disp) + " [siblings]", "no sibling keyword function is called next to $ref")
            r.ok(site(disp) + " [id]", "an id next to $ref is not entered as a scope")
        else:
            r.fail("%s|sibling-read|semantic" % disp.qual, site(disp), sem["ref-alone"])
        return r
    lookup, refvar, tests = find_ref_test(prog, disp)
    if tests and tests[0][0] == "truthiness":
        t = tests[0][1]
        r.fail("%s|ref-presence-by-truthiness" % disp.qual, site(disp, t.ast),
               "siblings of a $ref whose value is falsy (\"\") are read: presence is tested by truthiness, not by `is not None`")
        return r
    for n in cfg.live:
        inert = guarded_absent_ids(n, refvar)
        for kind, key, a in reads_of_schema(calls, disp, n, sp):
            if n is lookup and key == "$ref":
                r.ok(site(disp, a), "the $ref lookup itself")
                continue
            if id(a) in inert:
                r.ok(site(disp, a), "%s read in the ref-absent arm of a conditional expression: %s" % (kind, norm(a)[:60]))
                continue
            if only_via_edge(cfg, n, tests, False):
                r.ok(site(disp, a), "%s read only on the ref-absent edge: %s" % (kind, norm(a)[:60]))
                continue
            # read happens also when $ref is present: is its value used by anything on that path?
            r.fail("%s|sibling-read|%s" % (disp.qual, norm(a)), site(disp, a),
                   "schema is read (%s) on paths where $ref is present: %s -- a sibling of $ref (e.g. id/$id) can then influence "
                   "resolution of that very reference" % (kind, norm(a)))
    return r


def run(ctx):
    ctx.explanation = (
        "Decides structural clauses of $ref transparency: R2.1 short-circuit of siblings (reaching definitions of the "
        "dispatch iterable under the $ref test), R2.1b opacity of a reference object (no sibling key read on the "
        "ref-present path), R2.2 push/pop typestate on every exit incl. exception and generator-close edges, R2.3 the "
        "entered scope is the resolved URL, R2.4 joins against the current scope. Pointer decoding is decided under C14. "
        "Not decided: verdict equality with the inlined schema on concrete inputs.")
    ctx.assume("urllib.parse.urljoin/urldefrag implement RFC 3986 (stdlib, trusted)")
    ctx.assume("CPython finalises abandoned generators promptly")
    rule_short_circuit(ctx)
    rule_ref_opaque(ctx)
    scope.rule_pairing(ctx, "R2.2")
    scope.rule_push_target_scope(ctx, "R2.3")
    scope.rule_join_current_scope(ctx, "R2.4")
    scope.rule_memo_scope_free(ctx, "R2.4m")
    scope.rule_lazy_inside_scope(ctx, "R2.8")
    # R2.10: a half-consumed error iterator keeps the scopes it entered on the stack; nothing else is validated meanwhile
    scope.rule_no_parked_iterators(ctx, "R2.10")
    # R2.11: "#/..." designates a place in the schema in hand: each resolver files its own document in a store of its own, so
    # building a second resolver (even from the first one's store) cannot redirect the first one's references
    from .c18 import rule_per_validator_resolver
    rule_per_validator_resolver(ctx, "R2.11")
    scope.rule_scope_entered(ctx, "R2.12")
    scope.rule_who_raises_ref_error(ctx, "R2.13")
    scope.rule_custom_scheme_refs(ctx, "R2.15")
    # R2.19: a relative reference is relative whatever follows its first segment (C02-r8m1: a scheme test that looks anywhere in the reference)
    scope.rule_ordinary_join(ctx, "R2.19")
    # R2.17: a reference leaves its scope when its errors have been taken: nothing keeps a half-consumed error iterator alive (C02-r6m1)
    from .c07 import rule_no_held_iterator
    rule_no_held_iterator(ctx, "R2.17")
    scope.rule_scope_in_force(ctx, "R2.18")
    # R2.14: what a URI designates is what the store holds for it: outside the constructor the store is written in one place, under
    # the URL a document was retrieved for -- never under an id the retrieved document claims for itself (that would replace the
    # referrer or a caller-supplied document)
    from .c15 import rule_store_writes
    rule_store_writes(ctx, "R2.14")
    # R2.9: "obtainable through a handler": a handler registered for the scheme is what retrieves, before any built-in retrieval
    from .c15 import rule_handler_selection
    rule_handler_selection(ctx, "R2.9")
    # R2.5a: "the base URI in effect" is established by the draft's own id key and by nothing else
    from . import tables
    tables.rule_id_key(ctx, "R2.5a")
    # R2.5: the JSON-Pointer half of "the designated schema": the decoding pipeline rules of C14
    from . import c14
    c14.run_rules(ctx)
    # R2.6: documents in the store are found under normalised URIs (references into store documents)
    from . import c15
    c15.rule_uridict(ctx, "R2.6a")
    c15.rule_seeding(ctx, "R2.6b")
    # R2.16: no behaviour changes at a number fixed in the source (sizes, depths, counts, magnitudes are unbounded in the property's domain)
    from . import scope as _scope
    _scope.rule_no_size_thresholds(ctx, 'R2.16', ('validators',), 'reference resolution and the dispatcher')
