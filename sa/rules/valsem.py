"""validators.py evaluated by sa/tokeval.py: create() is run inside the definitional interpreter with recording stub keyword
functions, which yields the package's own Validator class (its `class` statement executed with create()'s variables as its
closure); that class's iter_errors / descend / validate / is_valid / check_schema, and extend(), validates(), validator_for()
and module-level validate() are then asked what the properties say about them.  Conventions as errsem."""
import warnings

from ..tokeval import Ev, ClsRef, Obj, Tok, Undecided, PyRaise


class Res:
    """recording resolver stub"""
    def __init__(self, log):
        self.log = log

    def push_scope(self, s):
        self.log.append(("push", s))

    def pop_scope(self):
        self.log.append(("pop",))


def _world(prog, extra_validators=None, meta_schema=None, version=None, id_key="$id"):
    ev = Ev(prog, fuel=200000, real_errors=True)
    Obj.ev = ev
    VE = ClsRef(ev, prog.cls("exceptions.ValidationError"))
    log = []
    made = {}

    def kw(name, n_errors=0, preset=None, raises=None, ret_none=False):
        def f(validator, value, instance, schema):
            log.append(("call", name, value, instance, schema, validator))
            if raises is not None:
                raise raises
            if ret_none:
                return None
            errs = []
            for i in range(n_errors):
                e = VE("%s-%d" % (name, i), **(preset or {}))
                errs.append(e)
            made.setdefault(name, []).extend(errs)
            return iter(errs)
        return f
    table = {"k1": kw("k1", 2), "k2": kw("k2", 1), "k0": kw("k0", 0), "kn": kw("kn", ret_none=True), "$ref": kw("$ref", 1), "if": kw("if", 1),
             "kp": kw("kp", 1, preset={"validator": "inner", "validator_value": "iv", "instance": "ii", "schema": "is"}),
             "kx": kw("kx", raises=PyRaise("Boom", "keyword function failed")),
             "ki": kw("ki", 1, preset={"instance": "own-instance"}), "kv": kw("kv", 1, preset={"validator": "own-keyword"}),
             "ks": kw("ks", 1, preset={"schema": "own-schema", "validator_value": "own-value"}),
             # an inner error may carry JSON null / no keyword where others carry values: a nested `false` schema (validator None), `const: null`
             # (validator_value None), a null instance; None and other falsy values are values, not "unset"
             "kz": kw("kz", 1, preset={"validator": None, "validator_value": None, "instance": None, "schema": False}),
             "ke": kw("ke", 1, preset={"validator": "", "validator_value": 0, "instance": [], "schema": {}}),
             "kd1": lambda validator, value, instance, schema: iter([VE("same message")]),
             "kd2": lambda validator, value, instance, schema: iter([VE("same message")])}
    table.update(extra_validators or {})
    id_of = lambda s: s.get(id_key, "") if isinstance(s, dict) else ""
    create = prog.func("validators.create")
    kwargs = {"meta_schema": meta_schema if meta_schema is not None else {id_key: "http://m/meta#", "k1": 7}, "validators": table, "id_of": id_of}
    if version is not None:
        kwargs["version"] = version
    V = ev.call_func(create, [], kwargs)
    return ev, V, VE, log, made, table, id_of


def dispatch_eval(prog):
    out = {}
    try:
        ev, V, VE, log, made, table, id_of = _world(prog)
        g = lambda o, n: ev.obj_getattr(o, n)
        I = Tok("instance", ("object",))
        v = V({"k1": 0}, resolver=Res(log))

        def run(schema, inst=I, method="iter_errors", **kw):
            del log[:]
            made.clear()
            return list(g(v, method)(inst, schema, **kw))
        # all keyword functions, in schema order, every error, unknown keys and None results skipped
        s1 = {"k1": 10, "unknown": 1, "x-vendor": {"a": 1}, "$comment": "c", "": 0, "title": "t", "kn": 0, "k0": 5, "K1": 3, "k2": 20, "k1 ": 4}
        errs = run(s1)
        out["all-errors"] = None
        want = made.get("k1", []) + made.get("k2", [])
        if len(errs) != 3 or any(a is not b for a, b in zip(errs, want)):
            out["all-errors"] = "a schema with keywords yielding 2, 0, none and 1 errors gives %d errors, expected those 3 objects in order" % len(errs)
        called = [(c[1], c[2]) for c in log if c[0] == "call"]
        if called != [("k1", 10), ("kn", 0), ("k0", 5), ("k2", 20)]:
            out["all-errors"] = "keyword functions called: %r; expected each known key once with its own value, unknown keys skipped" % (called,)
        if any(c[0] == "call" and (c[3] is not I or c[4] is not s1 or c[5] is not v) for c in log):
            out["all-errors"] = "a keyword function is not called with (this validator, value, this instance, this schema)"
        # a schema with more members than the class has keywords (annotations, vendor extensions): still walked in its own order
        big = {}
        for i in range(12):
            big["x-%d" % i] = i
        big["k2"] = 20
        for i in range(12, 24):
            big["y-%d" % i] = i
        big["k1"] = 10
        big["k0"] = 5
        run(big)
        called = [(c[1], c[2]) for c in log if c[0] == "call"]
        if called != [("k2", 20), ("k1", 10), ("k0", 5)]:
            out["all-errors"] = out["all-errors"] or ("a schema with 27 members (24 of them unknown names): keyword functions called %r; expected k2, k1, k0 -- the schema's own "
                                                       "order, each once" % (called,))
        errs2 = run({"kd1": 1, "kd2": 2})
        if len(errs2) != 2 or errs2[0] is errs2[1]:
            out["all-errors"] = "two keywords failing with the same message at the same place give %d errors, expected both" % len(errs2)
        # stamping
        out["stamp"] = None
        for e in errs:
            k = g(e, "message").split("-")[0]
            if g(e, "validator") != k or g(e, "validator_value") != s1[k] or g(e, "instance") is not I or g(e, "schema") is not s1:
                out["stamp"] = "error of %r is stamped (%r, %r, ...), expected its own keyword, that keyword's value, the instance and the schema in hand" % (
                    k, g(e, "validator"), g(e, "validator_value"))
            if list(g(e, "schema_path")) != [k]:
                out["stamp"] = "schema_path of an error of %r is %r, expected [%r]" % (k, list(g(e, "schema_path")), k)
        e = run({"kp": 1})[0]
        if (g(e, "validator"), g(e, "validator_value"), g(e, "instance"), g(e, "schema")) != ("inner", "iv", "ii", "is"):
            out["stamp"] = "fields already set by the keyword function are overwritten (innermost must win)"
        # each field on its own: a keyword function may have set any subset of them
        for k, kept, filled in (("ki", {"instance": "own-instance"}, ("validator", "validator_value", "schema")),
                                ("kv", {"validator": "own-keyword"}, ("validator_value", "instance", "schema")),
                                ("ks", {"schema": "own-schema", "validator_value": "own-value"}, ("validator", "instance"))):
            sk = {k: 5}
            e = run(sk)[0]
            want = {"validator": k, "validator_value": 5, "instance": I, "schema": sk}
            want.update(kept)
            got = {f: g(e, f) for f in want}
            if any(got[f] is not want[f] and got[f] != want[f] for f in want):
                out["stamp"] = "an error that arrives with only %s set leaves the dispatcher with %r; every field is filled exactly when it is still unset" % (
                    sorted(kept), {f: got[f] for f in sorted(got)})
        for k, kept in (("kz", {"validator": None, "validator_value": None, "instance": None, "schema": False}),
                        ("ke", {"validator": "", "validator_value": 0, "instance": [], "schema": {}})):
            e = run({k: 5})[0]
            got = {f: g(e, f) for f in kept}
            if any(got[f] is not kept[f] and (got[f] != kept[f] or type(got[f]) is not type(kept[f])) for f in kept):
                out["stamp"] = ("an error that arrives with %r (the error of a nested `false` schema has no keyword, `const: null` has the value null, a null "
                                "instance is an instance) leaves the dispatcher with %r: None and other falsy values are values, only the unset marker is "
                                "filled in" % (kept, got))
        for k in ("if", "$ref"):
            e = run({k: "v"})[0]
            if list(g(e, "schema_path")):
                out["stamp"] = "the keyword %r is recorded in schema_path (it is transparent there)" % k
        # the drafts' own vocabularies: one schema holding every keyword name of the draft (in table order and reversed), each keyword
        # function reporting one error: every keyword runs once and each error leaves stamped with its own keyword, whatever its name
        for dname, dr in sorted(prog.tables.drafts.items()):
            names = [n for n in dr.table if n != "$ref"]
            box = {}
            mk = lambda name: (lambda validator, value, instance, schema: iter([box["VE"]("%s|0" % name)]))
            ev2, V2, VE2, log2, made2, _t, _i = _world(prog, extra_validators={n: mk(n) for n in names})
            box["VE"] = VE2
            for order in (names, names[::-1]):
                sch = {n: "value of " + n for n in order}
                v2 = V2(sch, resolver=Res(log2))
                got = list(ev2.obj_getattr(v2, "iter_errors")(I))
                seen = [ev2.obj_getattr(e2, "message").split("|")[0] for e2 in got]
                if sorted(seen) != sorted(names):
                    out["all-errors"] = out["all-errors"] or ("%s: a schema holding every keyword of the draft, each reporting one error, gives the errors of %r; expected one "
                                                               "from each of the %d keywords" % (dname, sorted(seen), len(names)))
                for e2, k2 in zip(got, seen):
                    gg = lambda n, e2=e2: ev2.obj_getattr(e2, n)
                    if gg("validator") != k2 or gg("validator_value") != sch.get(k2) or list(gg("schema_path")) != ([] if k2 == "if" else [k2]):
                        out["stamp"] = out["stamp"] or ("%s: in a schema holding every keyword of the draft the error reported by %r leaves the dispatcher stamped "
                                                         "(validator=%r, validator_value=%r, schema_path=%r)" % (dname, k2, gg("validator"), gg("validator_value"), list(gg("schema_path"))))
        # $ref is alone
        out["ref-alone"] = None
        run({"$ref": "#/x", "k1": 1, "k2": 2, "$id": "http://ignored/"})
        called = [(c[1], c[2]) for c in log if c[0] == "call"]
        if called != [("$ref", "#/x")]:
            out["ref-alone"] = "next to $ref these keyword functions run: %r (expected $ref alone, with the reference as its value)" % (called,)
        if any(c[0] in ("push", "pop") for c in log):
            out["ref-alone"] = "the id written next to $ref is entered as a resolution scope (or a scope is left that was never entered): %r" % ([c[0] for c in log],)
        run({"k1": 1, "$id": "http://ignored/", "$ref": "#/y", "k2": 2})
        called = [(c[1], c[2]) for c in log if c[0] == "call"]
        if called != [("$ref", "#/y")] or any(c[0] in ("push", "pop") for c in log):
            out["ref-alone"] = "with $ref written after its siblings these run: %r (expected $ref alone, no scope entered)" % (called,)
        run({"$ref": "", "k1": 1})
        if [(c[1]) for c in log if c[0] == "call"] != ["$ref"]:
            out["ref-alone"] = "an empty-string $ref is not treated as a reference"
        # scope entered around the keywords, left afterwards, also when a keyword function raises
        out["scope"] = None
        run({"$id": "http://x/sub/", "k1": 1})
        kinds = [c[0] for c in log]
        if kinds != ["push", "call", "pop"] or log[0][1] != "http://x/sub/":
            out["scope"] = "with an id the sequence is %r, expected push(id), keyword, pop" % (kinds,)
        run({"k1": 1})
        if any(c[0] in ("push", "pop") for c in log):
            out["scope"] = "a scope is pushed or popped for a schema without an id"
        # the validator's own (root) schema is no exception: its id is entered too -- the resolver it was given may have another base
        for root in ({"$id": "http://root/own/", "k1": 1}, {"$id": "http://root/own/", "k0": 1, "k2": 1}):
            del log[:]
            vr = V(root, resolver=Res(log))
            for how in ("default", "explicit", "again"):
                del log[:]
                list(g(vr, "iter_errors")(I) if how == "default" else g(vr, "iter_errors")(I, root))
                kinds = [c[0] for c in log]
                if kinds[:1] != ["push"] or log[0][1] != "http://root/own/" or kinds[-1:] != ["pop"] or kinds.count("push") != 1:
                    out["scope"] = "for the validator's own schema (%s call) the id is not entered around its keywords: %r" % (how, kinds)
        try:
            run({"$id": "http://x/sub/", "kx": 1})
            out["scope"] = "an exception from a keyword function is swallowed"
        except PyRaise as pr:
            if pr.name != "Boom" or [c[0] for c in log] != ["push", "call", "pop"]:
                out["scope"] = "when a keyword function raises, the scope entered for the schema's id is not left (%r)" % ([c[0] for c in log],)
        # the same with the package's own resolver (what pop_scope answers is its business; leaving a scope must not swallow anything)
        try:
            RR = ClsRef(ev, prog.cls("validators.RefResolver"))
            real = RR("http://x/root/", {})
            vreal = V({"$id": "http://x/sub/", "kx": 1}, resolver=real)
            try:
                list(g(vreal, "iter_errors")(I))
                out["scope"] = out["scope"] or "with the package's own resolver an exception from a keyword function under a schema with an id is swallowed"
            except PyRaise as pr:
                if pr.name != "Boom":
                    out["scope"] = out["scope"] or "with the package's own resolver an exception from a keyword function surfaces as %s" % pr.name
            if list(ev.obj_getattr(real, "_scopes_stack")) != ["http://x/root/"]:
                out["scope"] = out["scope"] or "with the package's own resolver the scope entered for the schema's id is not left when a keyword function raises (%r)" % (
                    list(ev.obj_getattr(real, "_scopes_stack")),)
        except Undecided:
            pass
        # boolean schemas
        out["boolean"] = None
        if run(True):
            out["boolean"] = "the schema true yields errors"
        errs = run(False)
        if len(errs) != 1 or g(errs[0], "validator") is not None or g(errs[0], "validator_value") is not None or g(errs[0], "instance") is not I \
                or g(errs[0], "schema") is not False or list(g(errs[0], "schema_path")):
            out["boolean"] = "the schema false does not yield exactly one error with no keyword, the instance and the schema false"
        # default schema
        del log[:]
        errs = list(g(v, "iter_errors")(I))
        out["default"] = None if [(c[1], c[2]) for c in log if c[0] == "call"] == [("k1", 0)] else "iter_errors(instance) does not validate against the validator's own schema"
    except Undecided:
        return None
    except PyRaise as pr:
        out["raises"] = "raises %s (%s)" % (pr.name, pr.msg)
    return out


def entry_points_eval(prog):
    """descend / validate / is_valid in terms of iter_errors."""
    out = {}
    try:
        ev, V, VE, log, made, table, id_of = _world(prog)
        g = lambda o, n: ev.obj_getattr(o, n)
        I = Tok("instance", ("object",))
        v = V({"k1": 0}, resolver=Res(log))
        S = {"k1": 1, "k2": 2}
        out["descend"] = None
        for path, sp in ((None, None), ("p", "sp"), (0, 0), ("", ""), (None, 3), ("q", None)):
            made.clear()
            errs = list(g(v, "descend")(I, S, path=path, schema_path=sp))
            want = made.get("k1", []) + made.get("k2", [])
            if len(errs) != 3 or any(a is not b for a, b in zip(errs, want)):
                out["descend"] = "descend does not forward exactly the errors of iter_errors on (instance, subschema)"
                break
            for e in errs:
                k = g(e, "validator")
                wp = [] if path is None else [path]
                ws = ([] if sp is None else [sp]) + [k]
                if list(g(e, "path")) != wp or list(g(e, "schema_path")) != ws:
                    out["descend"] = "descend(path=%r, schema_path=%r) leaves an error with path %r, schema_path %r (expected %r, %r)" % (
                        path, sp, list(g(e, "path")), list(g(e, "schema_path")), wp, ws)
        # validate raises the first error of iter_errors, nothing when there is none
        out["validate"] = None
        made.clear()
        try:
            g(v, "validate")(I, S)
            out["validate"] = "validate() raises nothing although iter_errors yields errors"
        except PyRaise as pr:
            if pr.obj is not made["k1"][0]:
                out["validate"] = "validate() does not raise the first error iter_errors yields (raised %r)" % (pr.obj,)
        try:
            if g(v, "validate")(I, {"k0": 1}) is not None:
                out["validate"] = "validate() returns a value"
        except PyRaise as pr:
            out["validate"] = "validate() raises %s for a valid instance" % pr.name
        try:
            g(v, "validate")(I, False)
            out["validate"] = "validate() raises nothing for the schema false"
        except PyRaise as pr:
            if not (isinstance(pr.obj, Obj) and g(pr.obj, "validator") is None):
                out["validate"] = "validate() against the schema false does not raise that schema's (keyword-less) error"
        made.clear()
        try:
            g(v, "validate")(I)
            out["validate"] = "validate(instance) does not use the validator's own schema"
        except PyRaise as pr:
            if pr.obj is not made["k1"][0]:
                out["validate"] = "validate(instance) does not raise the first error for the validator's own schema"
        # is_valid
        out["is_valid"] = None
        if g(v, "is_valid")(I, S) is not False or g(v, "is_valid")(I, {"k0": 1}) is not True or g(v, "is_valid")(I, {}) is not True \
                or g(v, "is_valid")(I) is not False or g(v, "is_valid")(I, True) is not True or g(v, "is_valid")(I, False) is not False:
            out["is_valid"] = "is_valid is not `iter_errors yields nothing` (for a failing schema, a passing one, {}, the own schema, true, false)"
    except Undecided:
        return None
    except PyRaise as pr:
        out["raises"] = "raises %s (%s)" % (pr.name, pr.msg)
    return out


def classes_eval(prog):
    """create / extend / validates / own resolver (C16, C18, C20)."""
    out = {}
    try:
        meta0 = {"id": "http://m/meta#", "k1": 7}
        ev, V, VE, log, made, table, id_of = _world(prog, id_key="id", meta_schema=meta0)
        g = lambda o, n: ev.obj_getattr(o, n)
        ca = lambda c, n: ev.expr(__import__("ast").parse("C.%s" % n, mode="eval").body, {"C": c}, None)
        # create copies what it is given
        out["create-copies"] = None
        vals, meta = ca(V, "VALIDATORS"), ca(V, "META_SCHEMA")
        if vals is table or vals != table or meta != {"id": "http://m/meta#", "k1": 7}:
            out["create-copies"] = "the class's VALIDATORS/META_SCHEMA are not equal copies of the mappings given to create()"
        table["late"] = lambda *a: None
        if "late" in ca(V, "VALIDATORS"):
            out["create-copies"] = "a key added to the caller's mapping after create() shows up in the class's keyword table"
        del table["late"]
        if meta is meta0:
            out["create-copies"] = "the class's META_SCHEMA is the very mapping given to create(): writing to one (a derived class's META_SCHEMA) changes the other"
        meta0["late"] = 1
        if "late" in ca(V, "META_SCHEMA"):
            out["create-copies"] = "a key added to the caller's metaschema mapping after create() shows up in the class's META_SCHEMA"
        del meta0["late"]
        # extend
        out["extend"] = None
        extend = prog.func("validators.extend")
        k9 = lambda *a: None
        tc = Tok("other-type-checker")
        W = ev.call_func(extend, [V], {"validators": {"k9": k9, "k1": k9}})
        wv = ca(W, "VALIDATORS")
        if wv.get("k9") is not k9 or wv.get("k1") is not k9 or wv.get("k2") is not table["k2"] or set(wv) != set(table) | {"k9"}:
            out["extend"] = "the extended class's table is not the parent's with the given entries added/overridden"
        elif "k9" in ca(V, "VALIDATORS") or ca(V, "VALIDATORS").get("k1") is not table["k1"]:
            out["extend"] = "extend() changes the parent's keyword table"
        elif ca(W, "META_SCHEMA") != ca(V, "META_SCHEMA") or ca(W, "TYPE_CHECKER") is not ca(V, "TYPE_CHECKER"):
            out["extend"] = "the extended class does not carry the parent's metaschema and type checker"
        elif ca(W, "ID_OF")({"id": "http://q/"}) != "http://q/" or ca(W, "ID_OF")({"$id": "http://q/"}) != "":
            out["extend"] = "the extended class does not read schema ids the way its parent does"
        else:
            W2 = ev.call_func(extend, [V], {"type_checker": tc})
            if ca(W2, "TYPE_CHECKER") is not tc or ca(W2, "VALIDATORS") != ca(V, "VALIDATORS") or ca(V, "TYPE_CHECKER") is tc:
                out["extend"] = "a type checker given to extend() is not the new class's (or leaks into the parent)"
            W3 = ev.call_func(extend, [V], {})
            if ca(W3, "VALIDATORS") != ca(V, "VALIDATORS") or ca(W3, "VALIDATORS") is ca(V, "VALIDATORS") or ca(W3, "META_SCHEMA") != ca(V, "META_SCHEMA"):
                out["extend"] = "extend() with no changes does not give an equal, separate class"
            # whatever else is given to extend() -- a type checker, new keywords, both, nothing -- everything not given comes from the parent
            for how, Wx in (("a type checker", W2), ("nothing", W3), ("keywords and a type checker", ev.call_func(extend, [V], {"validators": {"k9": k9}, "type_checker": tc}))):
                if out["extend"] is None and (ca(Wx, "ID_OF")({"id": "http://q/"}) != "http://q/" or ca(Wx, "ID_OF")({"$id": "http://q/"}) != ""
                                              or ca(Wx, "META_SCHEMA") != ca(V, "META_SCHEMA")):
                    out["extend"] = "a class extended with %s does not read schema ids (or carry the metaschema) the way its parent does" % how
        # a parent created the deprecated way (default_types=...) hands its own type checks on as well
        if out["extend"] is None:
            with warnings.catch_warnings(record=True):
                warnings.simplefilter("always")
                P = ev.call_func(prog.func("validators.create"), [], {"meta_schema": {"id": "http://m/legacy#"}, "validators": dict(table), "id_of": id_of,
                                                                        "default_types": {"array": (list, tuple), "object": dict, "thing": frozenset}})
                W4 = ev.call_func(extend, [P], {"validators": {"k9": k9}})
            if ca(W4, "TYPE_CHECKER") is not ca(P, "TYPE_CHECKER"):
                out["extend"] = "a class extended from a parent created with default_types does not carry the parent's type checker (custom type names are lost)"
            else:
                try:
                    with warnings.catch_warnings(record=True):
                        warnings.simplefilter("always")
                        ev.call_func(extend, [P], {"type_checker": tc})
                    out["extend"] = "extending a default_types parent with a type checker is not refused"
                except PyRaise as pr:
                    if pr.name != "TypeError":
                        out["extend"] = "extending a default_types parent with a type checker raises %s" % pr.name
        # adding one keyword changes that keyword only -- also when the keyword is $ref and the parent had none: whether the members
        # next to a $ref are looked at does not depend on the class having a function for $ref
        if out["extend"] is None:
            P0 = ev.call_func(prog.func("validators.create"), [], {"meta_schema": {"id": "http://m/noref#"}, "validators": {"k1": table["k1"], "k2": table["k2"]}, "id_of": id_of})
            C0 = ev.call_func(extend, [P0], {"validators": {"$ref": table["$ref"]}})
            I0 = Tok("instance", ("object",))
            for sch in ({"$ref": "#/x", "k1": 1, "k2": 2}, {"k1": 1, "$ref": "#/x"}, {"k1": 1, "k2": 2}, {"id": "http://m/sub/", "$ref": "#/x", "k2": 2}):
                seen_by = {}
                for lab, cls_ in (("parent", P0), ("child", C0)):
                    del log[:]
                    list(g(cls_(sch, resolver=Res(log)), "iter_errors")(I0))
                    seen_by[lab] = [c[1] if c[0] == "call" else c[0] for c in log if not (c[0] == "call" and c[1] == "$ref")]
                if seen_by["parent"] != seen_by["child"]:
                    out["extend"] = ("adding a function for $ref with extend() changes what the *other* keywords do on the schema %r: the parent runs %r, the child %r "
                                     "(whether a $ref hides its siblings must not depend on the class knowing $ref)" % (sch, seen_by["parent"], seen_by["child"]))
                    break
        # registration
        out["registers"] = None
        reg_v = ev.module_value("validators", "validators")
        reg_m = ev.module_value("validators", "meta_schemas")
        before_v, before_m = dict(reg_v), list(iter(reg_m))
        if "v1" in reg_v or before_m:
            out["registers"] = "create() without a version registers the class"
        class _Other:
            META_SCHEMA = {"$id": "http://other/schema"}
        other = _Other()
        reg_m["http://other/schema"] = other
        reg_v["other"] = other
        evx, V1 = ev, ev.call_func(prog.func("validators.create"), [], {"meta_schema": {"id": "http://m/v1#"}, "validators": {}, "version": "v one", "id_of": id_of})
        if reg_v.get("v one") is not V1:
            out["registers"] = "create(version=...) does not register the class under its version"
        elif reg_m.get("http://m/v1") is not V1 or reg_m.get("http://m/v1#") is not V1:
            out["registers"] = "the class is not selectable by its own metaschema id, with and without the empty fragment"
        elif reg_m.get("http://other/schema") is not other or reg_v.get("other") is not other or sorted(iter(reg_m)) != ["http://m/v1", "http://other/schema"]:
            out["registers"] = "registering a class disturbs existing registrations (ids now %r)" % (sorted(iter(reg_m)),)
        elif ca(V1, "__name__") != "VOneValidator":
            out["registers"] = "the registered class is not named after its version (%r)" % (ca(V1, "__name__"),)
        else:
            V2 = ev.call_func(prog.func("validators.create"), [], {"meta_schema": {"title": "no id"}, "validators": {}, "version": "v2", "id_of": id_of})
            if reg_v.get("v2") is not V2 or len(list(iter(reg_m))) != 2:
                out["registers"] = "a class whose metaschema has no id is registered under an id all the same (or not under its version)"
            # the id a class registers under is the one *its own* id_of reads: a `$id` in the metaschema means nothing to a class that
            # reads `id` (it has no metaschema id then, and takes nobody's place)
            Vd = ev.call_func(prog.func("validators.create"), [], {"meta_schema": {"$id": "http://m/v1#", "title": "only a $id"}, "validators": {}, "version": "vdollar", "id_of": id_of})
            if reg_v.get("vdollar") is not Vd or reg_m.get("http://m/v1") is not V1 or len(list(iter(reg_m))) != 2:
                out["registers"] = ("a class that reads ids with `id` and whose metaschema only has a `$id` is registered under that `$id` all the same "
                                    "(ids now %r; http://m/v1 -> %s)" % (sorted(iter(reg_m)), "the earlier class" if reg_m.get("http://m/v1") is V1 else "the new class"))
            reg_v.pop("vdollar", None)
            V3 = ev.call_func(prog.func("validators.create"), [], {"meta_schema": {"id": "http://m/v1#"}, "validators": {}, "version": "v3", "id_of": id_of})
            if reg_m.get("http://m/v1") is not V3:
                out["registers"] = "a class registered later under the same metaschema id does not become the one selected"
            # the version label is a string like any other: the empty one registers the class too (`version is not None` decides)
            Ve = ev.call_func(prog.func("validators.create"), [], {"meta_schema": {"id": "http://m/empty-version#"}, "validators": {}, "version": "", "id_of": id_of})
            if reg_m.get("http://m/empty-version") is not Ve or reg_v.get("") is not Ve:
                out["registers"] = out["registers"] or "create(version='') does not register the class (by version %r, by metaschema id %r)" % (
                    reg_v.get(""), reg_m.get("http://m/empty-version"))
            for k in ("http://m/empty-version",):
                if k in reg_m:
                    ev.native(lambda k=k: reg_m.__delitem__(k))
            reg_v.pop("", None)
            # an id with a non-empty fragment is registered as written (only an empty fragment is immaterial)
            V4 = ev.call_func(prog.func("validators.create"), [], {"meta_schema": {"id": "http://m/v4#frag"}, "validators": {}, "version": "v4", "id_of": id_of})
            if reg_m.get("http://m/v4#frag") is not V4 or "http://m/v4" in reg_m:
                out["registers"] = "a metaschema id with a non-empty fragment is not registered as written (ids now %r)" % (sorted(iter(reg_m)),)
            for k in ("http://m/v4#frag", "http://m/v4"):
                if k in reg_m:
                    del reg_m[k]
            reg_v.pop("v4", None)
            # the id a class is registered under is read from its META_SCHEMA *when it is registered*: extend(), replace META_SCHEMA
            # (the documented recipe), then validates()
            V5 = ev.call_func(prog.func("validators.create"), [], {"meta_schema": {"id": "http://m/v5#"}, "validators": {}, "version": "v5", "id_of": id_of})
            W5 = ev.call_func(extend, [V5], {})
            if isinstance(W5.vals, dict) and "META_SCHEMA" in W5.vals:
                W5.vals["META_SCHEMA"] = {"id": "http://m/w5#"}
                deco = ev.call_func(prog.func("validators.validates"), ["w5"], {})
                deco(W5)
                if reg_m.get("http://m/w5") is not W5 or reg_m.get("http://m/v5") is not V5 or reg_v.get("w5") is not W5:
                    out["registers"] = ("a derived class whose META_SCHEMA was replaced before validates() is not registered under its own new id, or takes its "
                                        "parent's place (ids now %r)" % (sorted(iter(reg_m)),))
            for k in ("http://m/v5", "http://m/w5"):
                if k in reg_m:
                    del reg_m[k]
            for k in ("v5", "w5"):
                reg_v.pop(k, None)
        # own resolver
        out["own-resolver"] = None
        s1, s2 = {"id": "http://s/one", "k0": 1}, {"id": "http://s/two"}
        v1, v2 = V(s1), V(s2)
        r1, r2 = g(v1, "resolver"), g(v2, "resolver")
        if r1 is r2 or not isinstance(r1, Obj) or r1.cls.name != "RefResolver":
            out["own-resolver"] = "validators built without a resolver do not each get a RefResolver of their own"
        elif g(r1, "resolution_scope") != "http://s/one" or g(r1, "store")["http://s/one"] is not s1 or g(r1, "referrer") is not s1:
            out["own-resolver"] = "the resolver a validator builds for itself is not based on its own schema and that schema's id (as the class reads ids)"
        elif g(v1, "schema") is not s1 or g(v1, "format_checker") is not None:
            out["own-resolver"] = "the constructor does not record schema / format_checker as given"
        given = Res([])
        if g(V(s1, resolver=given), "resolver") is not given:
            out["own-resolver"] = "a resolver given to the constructor is not used"

        class _Empty:
            """a collaborator that happens to be falsy (an empty registry has length 0): still the one that was given"""
            def __len__(self):
                return 0

            def push_scope(self, s):
                pass

            def pop_scope(self):
                pass
        fc0, rs0 = _Empty(), _Empty()
        v0 = V(s1, resolver=rs0, format_checker=fc0)
        if g(v0, "format_checker") is not fc0 or g(v0, "resolver") is not rs0:
            out["own-resolver"] = ("a format checker or resolver that is falsy (an object with length 0, e.g. a checker with no formats registered yet) "
                                   "is dropped by the constructor instead of being used as given")
        for k in ("http://other/schema", "http://m/v1"):
            if k in reg_m:
                del reg_m[k]
        for k in ("other", "v one", "v2", "v3"):
            reg_v.pop(k, None)
    except Undecided:
        return None
    except PyRaise as pr:
        out["raises"] = "raises %s (%s)" % (pr.name, pr.msg)
    return out


class _StubClass:
    """a validator class as module-level validate()/validator_for() see it"""
    def __init__(self, name, log, errors=()):
        self.name, self.log, self.errors = name, log, list(errors)

    def check_schema(self, schema):
        self.log.append((self.name, "check_schema", schema))

    def __call__(self, schema, *args, **kwargs):
        self.log.append((self.name, "construct", schema, args, kwargs))
        outer = self

        class Inst:
            def iter_errors(self, instance, *a):
                outer.log.append((outer.name, "iter_errors", instance))
                return iter(outer.errors)
        return Inst()

    def __repr__(self):
        return "<class %s>" % self.name


def selection_eval(prog):
    """validator_for and module-level validate (C20, C04)."""
    out = {}
    try:
        ev = Ev(prog, fuel=200000, real_errors=True)
        Obj.ev = ev
        VE = ClsRef(ev, prog.cls("exceptions.ValidationError"))
        log = []
        latest, d4, mine = _StubClass("Latest", log), _StubClass("Draft4", log), _StubClass("Mine", log)
        ev.preset("validators", "Draft7Validator", latest)
        reg_m = ev.module_value("validators", "meta_schemas")
        reg_m["http://json-schema.org/draft-04/schema"] = d4
        vf = prog.func("validators.validator_for")

        def sel(schema, **kw):
            with warnings.catch_warnings(record=True) as w:
                warnings.simplefilter("always")
                res = ev.call_func(vf, [schema], kw)
            return res, [x for x in w if issubclass(x.category, DeprecationWarning)]
        out["selection"] = None
        cases = [
            (True, {}, latest, 0), (False, {}, latest, 0), ({}, {}, latest, 0), ({"type": "object"}, {}, latest, 0),
            (True, {"default": mine}, mine, 0), ({}, {"default": mine}, mine, 0), ({"a": 1}, {"default": None}, None, 0),
            ({"$schema": "http://json-schema.org/draft-04/schema#"}, {}, d4, 0), ({"$schema": "http://json-schema.org/draft-04/schema"}, {}, d4, 0),
            ({"$schema": "http://json-schema.org/draft-04/schema#"}, {"default": mine}, d4, 0),
            ({"$schema": "http://unknown/schema#"}, {}, latest, 1), ({"$schema": "http://unknown/schema#"}, {"default": mine}, latest, 1),
            ({"$schema": "not a uri"}, {}, latest, 1), ({"$schema": "http://json-schema.org/draft-04/schema#frag"}, {}, latest, 1),
            # a $schema that is there but empty (or "#") names no known draft: it is not the same as no $schema at all
            ({"$schema": ""}, {}, latest, 1), ({"$schema": ""}, {"default": mine}, latest, 1), ({"$schema": "#"}, {"default": mine}, latest, 1),
        ]
        for schema, kw, want, nwarn in cases:
            got, ws = sel(schema, **kw)
            if got is not want:
                out["selection"] = "validator_for(%r%s) selects %r, expected %r" % (schema, ", default=%r" % kw["default"] if kw else "", got, want)
                break
            if len(ws) != nwarn:
                out["selection"] = "validator_for(%r) issues %d DeprecationWarnings, expected %d (exactly for an unrecognised $schema)" % (schema, len(ws), nwarn)
                break
        if sorted(iter(reg_m)) != ["http://json-schema.org/draft-04/schema"]:
            out["selection"] = "validator_for writes to the registry (%r)" % (sorted(iter(reg_m)),)
        # a class registered after a first, failed look-up is found by the next one
        late = _StubClass("Late", log)
        reg_m["http://unknown/schema"] = late
        got, ws = sel({"$schema": "http://unknown/schema#"})
        if got is not late or ws:
            out["selection"] = "a class registered after an unsuccessful look-up of its id is not selected afterwards (got %r)" % (got,)
        del reg_m["http://unknown/schema"]
        # module-level validate
        out["validate"] = None
        vfn = prog.func("validators.validate")
        I = Tok("instance")
        e_deep, e_shallow = VE("deep", validator="type", path=["a", "b"]), VE("shallow", validator="type", path=["a"])

        def call(schema, errors=(), **kw):
            del log[:]
            for c in (latest, d4, mine):
                c.errors = list(errors)
            try:
                ev.call_func(vfn, [I, schema], kw)
                return None
            except PyRaise as pr:
                return pr
        s4 = {"$schema": "http://json-schema.org/draft-04/schema#"}
        for schema, kw, cls_ in ((s4, {}, d4), ({}, {}, latest), (s4, {"cls": mine}, mine), (True, {"cls": mine}, mine)):
            res = call(schema, **kw)
            names = [(c[0], c[1]) for c in log]
            if res is not None:
                out["validate"] = "validate() raises %s for a valid instance" % res.name
            elif names != [(cls_.name, "check_schema"), (cls_.name, "construct"), (cls_.name, "iter_errors")]:
                out["validate"] = "validate(instance, %r%s) does %r; expected check_schema, construction and iter_errors on %s, in that order" % (
                    schema, ", cls=Mine" if kw else "", names, cls_.name)
            elif log[0][2] is not schema or log[1][2] is not schema or log[2][2] is not I:
                out["validate"] = "validate() does not hand the schema / instance on unchanged"
        res = call({}, errors=[e_deep, e_shallow])
        if res is None or res.obj is not e_shallow:
            out["validate"] = "validate() does not raise best_match of the errors (raised %r)" % (res.obj if res else None,)
        del log[:]
        mine.errors = []
        try:
            ev.call_func(vfn, [I, {}], {"cls": mine, "resolver": "R", "format_checker": "F"})
            if [c for c in log if c[1] == "construct"][0][4] != {"resolver": "R", "format_checker": "F"}:
                out["validate"] = "extra arguments are not passed on to the class"
        except PyRaise as pr:
            out["validate"] = "validate() with extra arguments raises %s" % pr.name
        del reg_m["http://json-schema.org/draft-04/schema"]
    except Undecided:
        return None
    except PyRaise as pr:
        out["raises"] = "raises %s (%s)" % (pr.name, pr.msg)
    return out


def check_schema_eval(prog):
    """check_schema: the candidate is validated by a fresh validator of the *same class* over that class's own META_SCHEMA, with no
    format checker, resolver or types of its own; the first error comes back as SchemaError.create_from(error); nothing else happens.
    (C04, C11, C12, C20.)"""
    out = {}
    try:
        # both the metaschema and the candidate name, as their $schema, *another* registered class U that accepts everything:
        # check_schema is about the class it is called on, whatever either document says about itself
        meta0 = {"id": "http://m/meta#", "$schema": "http://m/u#", "k1": 7, "k0": 3}
        ev, V, VE, log, made, table, id_of = _world(prog, id_key="id", meta_schema=meta0, version="vee")
        g = lambda o, n: ev.obj_getattr(o, n)
        mk_ca = lambda evx: (lambda c, n: evx.expr(__import__("ast").parse("C.%s" % n, mode="eval").body, {"C": c}, None))
        ca = mk_ca(ev)
        ev.call_func(prog.func("validators.create"), [], {"meta_schema": {"id": "http://m/u#"}, "validators": {"k1": table["k0"], "k0": table["k0"]},
                                                           "id_of": id_of, "version": "you"})
        cand = {"anything": Tok("candidate-member"), "$schema": "http://m/u#"}
        meta = ca(V, "META_SCHEMA")

        def attempt(fn, c=cand):
            del log[:]
            made.clear()
            try:
                res = fn(c)
            except PyRaise as pr:
                return pr
            return ("returned", res)
        out["raises-schema-error"] = out["own-class"] = out["bare-validator"] = out["classmethod"] = None

        def judge(pr, cls_, first_kw, value, label):
            if not isinstance(pr, PyRaise):
                out["raises-schema-error"] = "%s: returns %r although the metaschema validation yields an error" % (label, pr[1])
                return
            if pr.name != "SchemaError" or not isinstance(pr.obj, Obj):
                out["raises-schema-error"] = "%s: raises %s, expected SchemaError built from the first error" % (label, pr.name)
                return
            src = made.get(first_kw, [None])[0]
            if src is None:
                out["raises-schema-error"] = "%s: the error raised does not stem from the keyword %r of the metaschema" % (label, first_kw)
                return
            e = pr.obj
            for fld in ("message", "validator", "validator_value", "instance", "schema", "cause", "context"):
                a, b = g(e, fld), g(src, fld)
                if a is not b and a != b:
                    out["raises-schema-error"] = "%s: SchemaError.%s is %r, the first metaschema error has %r (create_from copies every field)" % (label, fld, a, b)
            if list(g(e, "path")) != list(g(src, "path")) or list(g(e, "schema_path")) != list(g(src, "schema_path")):
                out["raises-schema-error"] = "%s: SchemaError path/schema_path differ from the first metaschema error's" % label
            if g(e, "validator") != first_kw or g(e, "validator_value") != value:
                out["raises-schema-error"] = "%s: the error raised is for %r=%r, expected the first failing keyword %r=%r" % (
                    label, g(e, "validator"), g(e, "validator_value"), first_kw, value)
            callsk = [c for c in log if c[0] == "call"]
            if not callsk or callsk[0][1] != first_kw or callsk[0][3] is not c_in[0]:
                out["own-class"] = "%s: the candidate is not what the metaschema's keyword functions are applied to" % label
                return
            vobj, used_schema = callsk[0][5], callsk[0][4]
            m = ca(cls_, "META_SCHEMA")
            if used_schema is not m and used_schema != m:
                out["own-class"] = "%s: the candidate is validated against %r, not the class's own META_SCHEMA" % (label, used_schema)
            if not isinstance(vobj, Obj) or vobj.klass is not cls_:
                out["own-class"] = "%s: the validating object is not an instance of the class check_schema was called on" % label
                return
            if g(vobj, "format_checker") is not None:
                out["bare-validator"] = "%s: the metaschema validation runs with a format checker (check_schema would reject more than the metaschema does)" % label
            if g(vobj, "TYPE_CHECKER") is not ca(cls_, "TYPE_CHECKER"):
                out["bare-validator"] = "%s: the metaschema validation runs with type checks other than the class's" % label
            rs = g(vobj, "resolver")
            if not isinstance(rs, Obj) or g(rs, "referrer") is not g(vobj, "schema"):
                out["bare-validator"] = "%s: the metaschema validation runs with a resolver that is not the default one for the metaschema" % label
        c_in = [cand]
        judge(attempt(ca(V, "check_schema")), V, "k1", 7, "Validator.check_schema(candidate)")
        out["candidate-untouched"] = None
        m0 = {"id": "http://m/meta#", "$schema": "http://m/u#", "k1": 7, "k0": 3}
        if list(cand) != ["anything", "$schema"] or not isinstance(cand["anything"], Tok) or meta0 != m0 or ca(V, "META_SCHEMA") != m0:
            out["candidate-untouched"] = "check_schema writes to the candidate or to the metaschema"
        # on an instance: still the class's metaschema, not the instance's schema
        inst = V({"k2": 1})
        try:
            fn = g(inst, "check_schema")
            judge(attempt(fn), V, "k1", 7, "validator_instance.check_schema(candidate)")
        except PyRaise as pr:
            out["classmethod"] = "check_schema cannot be called on an instance (%s)" % pr.name
        # a derived class checks with its own table and metaschema
        extend = prog.func("validators.extend")
        k0w = table["k2"]
        W = ev.call_func(extend, [V], {"validators": {"k1": table["k0"], "k0": k0w}})
        # W: k1 passes, k0 is bound to the function logging as k2 with one error
        del log[:]
        made.clear()
        pr = attempt(ca(W, "check_schema"))
        if not isinstance(pr, PyRaise) or pr.name != "SchemaError" or not isinstance(pr.obj, Obj) or g(pr.obj, "validator") != "k0" or g(pr.obj, "validator_value") != 3:
            out["own-class"] = "a class derived with extend() does not check candidates with its own keyword table (got %r)" % (pr,)
        else:
            callsk = [c for c in log if c[0] == "call"]
            if any(not isinstance(c[5], Obj) or c[5].klass is not W for c in callsk):
                out["own-class"] = "a derived class's check_schema validates with an instance of another class"
        # no memory between calls: the same call again gives the same answer, and a class whose META_SCHEMA has been replaced
        # (extend()'s documented recipe) checks against the new one
        c_in[0] = cand
        judge(attempt(ca(V, "check_schema")), V, "k1", 7, "Validator.check_schema(candidate), second call")
        if isinstance(V.vals, dict) and "META_SCHEMA" in V.vals:
            V.vals["META_SCHEMA"] = {"id": "http://m/meta#", "k0": 3}
            pr = attempt(ca(V, "check_schema"))
            if isinstance(pr, PyRaise):
                out["own-class"] = "after the class's META_SCHEMA was replaced, check_schema still checks against the old one (raises %s)" % pr.name
            V.vals["META_SCHEMA"] = {"id": "http://m/meta#", "k2": 5, "k0": 3}
            judge(attempt(ca(V, "check_schema")), V, "k2", 5, "Validator.check_schema(candidate) after META_SCHEMA was replaced")
            V.vals["META_SCHEMA"] = meta
        # the *first* error, not the "best" one: a metaschema whose first failing keyword is anyOf (a weak match for best_match)
        ev3, V3, VE3, log3, made3, table3, _ = _world(prog, id_key="id", meta_schema={"id": "http://m/weak#", "anyOf": 1, "k1": 7},
                                                      extra_validators={"anyOf": None})
        any_errs = []

        def any_kw(validator, value, instance, schema):
            e = VE3("anyOf-0", path=["deep", "er"])
            any_errs.append(e)
            return iter([e])
        ca3 = mk_ca(ev3)
        ca3(V3, "VALIDATORS")["anyOf"] = any_kw
        try:
            ca3(V3, "check_schema")(cand)
            out["raises-schema-error"] = out["raises-schema-error"] or "nothing raised although the metaschema's first keyword fails"
        except PyRaise as pr:
            if not (isinstance(pr.obj, Obj) and any_errs and g(pr.obj, "message") == "anyOf-0" and g(pr.obj, "validator") == "anyOf"):
                out["raises-schema-error"] = out["raises-schema-error"] or (
                    "the error raised is not the first one the metaschema validation yields (an anyOf error with a longer path came first; got %r)" % (
                        g(pr.obj, "message") if isinstance(pr.obj, Obj) else pr.name,))
        # nothing to complain about: returns None, nothing raised
        ev2, V2, VE2, log2, made2, table2, _ = _world(prog, id_key="id", meta_schema={"id": "http://m/ok#", "k0": 1, "kn": 2})
        try:
            res = mk_ca(ev2)(V2, "check_schema")(cand)
            if res is not None:
                out["raises-schema-error"] = "check_schema returns %r for a candidate its metaschema accepts" % (res,)
            if [(c[1], c[3] is cand) for c in log2 if c[0] == "call"] != [("k0", True), ("kn", True)]:
                out["own-class"] = "for an acceptable candidate the metaschema's keywords are not each applied once to the candidate: %r" % ([c[1] for c in log2 if c[0] == "call"],)
        except PyRaise as pr:
            out["raises-schema-error"] = "check_schema raises %s for a candidate its metaschema accepts" % pr.name
        # every kind of candidate reaches the keyword functions unchanged
        for c in (True, False, 0, "s", None, [1], {}):
            c_in[0] = c
            pr = attempt(ca(V, "check_schema"), c)
            if not isinstance(pr, PyRaise) or pr.name != "SchemaError":
                out["raises-schema-error"] = "candidate %r: %s" % (c, "raises %s" % pr.name if isinstance(pr, PyRaise) else "no SchemaError")
                break
            callsk = [x for x in log if x[0] == "call"]
            if not callsk or callsk[0][3] is not c:
                out["own-class"] = "candidate %r does not reach the metaschema's keyword functions as given" % (c,)
                break
    except Undecided:
        return None
    except PyRaise as pr:
        out["raises"] = "raises %s (%s)" % (pr.name, pr.msg)
    return out


class _StackRes:
    """resolver stand-in that keeps the stack of entered scopes"""
    def __init__(self):
        self.stack = []
        self.events = []

    def push_scope(self, s):
        self.stack.append(s)
        self.events.append(("push", s))

    def pop_scope(self):
        self.events.append(("pop", self.stack[-1] if self.stack else None))
        if self.stack:
            self.stack.pop()


def scope_probe_eval(prog, draft):
    """Which resolution scope is in force while a subschema's keywords run?  The class create() builds is given the draft's *own*
    keyword functions plus a probe keyword; every applicator of the draft is handed three failing subschemas that each carry their
    own id and the probe, over an array, an object and a number.  At each probe call the scopes entered must be exactly that
    subschema's id (what a `$ref` inside it would be resolved against) -- not a sibling's left over from a branch whose errors are
    still being produced, nor the parent's missing.  -> ({keyword: message | None}, number of probe calls) or None."""
    from ..tokeval import FuncRef
    id_key = "id" if draft in ("draft3", "draft4") else "$id"
    out, n_probes = {}, 0
    try:
        table = prog.tables.drafts[draft].table
        for K in sorted(table):
            if K in ("$ref", "format", "pattern", "type", "enum", "const", "required"):
                if not (K == "type" and draft == "draft3"):
                    continue
            subs = [{id_key: "http://x/%s/%d/" % (K.strip("$"), i), "kprobe": i} for i in range(3)]
            shapes = [list(subs), subs[0], {"a": subs[0], "b": subs[1], "c": subs[2]}, {"^a": subs[0], "^b": subs[1], "^c": subs[2]}]
            problem, probes_k = None, 0
            for value in shapes:
                for inst in ([1, 2, 3], {"a": 1, "b": 2, "c": 3}, 5):
                    ev = Ev(prog, fuel=60000, real_errors=True)
                    Obj.ev = ev
                    VE = ClsRef(ev, prog.cls("exceptions.ValidationError"))
                    res = _StackRes()
                    seen = []

                    def kprobe(validator, value_, instance, schema, res=res, seen=seen, VE=VE):
                        seen.append((schema.get(id_key), list(res.stack)))
                        return iter([VE("probe-%s-a" % value_), VE("probe-%s-b" % value_)])
                    kws = {k: FuncRef(ev, f) for k, f in table.items()}
                    kws["kprobe"] = kprobe
                    id_of = lambda s, id_key=id_key: s.get(id_key, "") if isinstance(s, dict) else ""
                    try:
                        V = ev.call_func(prog.func("validators.create"), [], {"meta_schema": {id_key: "http://m/probe#"}, "validators": kws, "id_of": id_of})
                        schema = {K: value}
                        if K == "if":
                            schema.update({"then": subs[1], "else": subs[2]})
                        if K == "additionalItems":
                            schema["items"] = []
                        v = V(schema, resolver=res)
                        list(ev.obj_getattr(v, "iter_errors")(inst))
                    except (PyRaise, Undecided, RecursionError):
                        continue        # this shape of value is not one the keyword takes
                    for own, stack in seen:
                        probes_k += 1
                        if stack != [own] and problem is None:
                            problem = ("%s %s over %r: while the keywords of the subschema with id %r run, the scopes entered are %r (expected exactly its own id: "
                                       "a reference inside it would be resolved against the wrong document)" % (draft, K, inst, own, stack))
                    if res.stack and problem is None:
                        problem = "%s %s over %r: scopes %r are still entered after the errors were exhausted" % (draft, K, inst, res.stack)
            if probes_k:
                out[K] = problem
                n_probes += probes_k
    except Undecided:
        return None
    return out, n_probes


class _PkgData:
    """pkgutil.get_data for the package's own data files, read from the tree under analysis"""
    def __init__(self, prog):
        self.root = prog.root

    def get_data(self, package, resource):
        import os
        with open(os.path.join(self.root, resource), "rb") as fh:
            return fh.read()


def carriers_eval(prog):
    """The four draft classes as the package itself builds them (module-level `DraftNValidator = create(...)`, evaluated inside
    sa/tokeval.py with the real keyword tables and type checkers) on values that are numbers / strings / arrays / objects *to the
    type checker* without being plain int/float/str/list/dict: Decimal and Fraction (what json.loads(parse_float=Decimal) or a caller
    delivers), subclasses of str, list and dict (OrderedDict from object_pairs_hook).  Each keyword must see them exactly as it
    sees the plain value.  -> {clause: message | None} or None."""
    from collections import OrderedDict
    from decimal import Decimal
    from fractions import Fraction

    class Text(str):
        pass

    class Arr(list):
        pass
    out = {"carriers": None}
    cases = [
        ({"minimum": 1}, Decimal("0.25"), 1), ({"minimum": 1}, Decimal("1.5"), 0), ({"maximum": 1}, Fraction(3, 2), 1), ({"maximum": 2}, Fraction(3, 2), 0),
        ({"multipleOf": 2}, Decimal("3"), 1), ({"multipleOf": 2}, Fraction(4, 1), 0), ({"type": "number"}, Decimal("1.5"), 0), ({"type": "string"}, Decimal("1.5"), 1),
        ({"minLength": 3}, Text("ab"), 1), ({"maxLength": 1}, Text("ab"), 1), ({"pattern": "^a"}, Text("b"), 1), ({"pattern": "^a"}, Text("ab"), 0),
        ({"minItems": 2}, Arr([1]), 1), ({"maxItems": 1}, Arr([1, 2]), 1), ({"items": {"type": "string"}}, Arr([1, "a", 2]), 2), ({"uniqueItems": True}, Arr([1, 1]), 1),
        ({"required": ["a"]}, OrderedDict(), 1), ({"minProperties": 1}, OrderedDict(), 1), ({"maxProperties": 1}, OrderedDict([("a", 1), ("b", 2)]), 1),
        ({"properties": {"a": {"type": "string"}}}, OrderedDict([("a", 1)]), 1), ({"additionalProperties": False}, OrderedDict([("a", 1)]), 1),
        ({"patternProperties": {"^a": {"type": "string"}}}, OrderedDict([("ab", 1)]), 1), ({"dependencies": {"a": ["b"]}}, OrderedDict([("a", 1)]), 1),
        ({"enum": [1]}, Decimal("1"), 0), ({"enum": [1]}, Decimal("2"), 1),
    ]
    try:
        for draft, extra in (("Draft3Validator", [({"divisibleBy": 2}, Decimal("3"), 1), ({"properties": {"a": {"required": True}}}, OrderedDict(), 1)]),
                             ("Draft4Validator", []), ("Draft6Validator", [({"contains": {"type": "string"}}, Arr([1]), 1), ({"propertyNames": {"maxLength": 1}}, OrderedDict([("ab", 1)]), 1),
                                                                           ({"exclusiveMinimum": 1}, Decimal("1"), 1), ({"const": 1}, Decimal("2"), 1)]),
                             ("Draft7Validator", [({"if": {"minimum": 1}, "then": {"maximum": 0}}, Decimal("2"), 1), ({"exclusiveMaximum": 1}, Fraction(1, 1), 1)])):
            ev = Ev(prog, fuel=400000, real_errors=True)
            Obj.ev = ev
            ev.ext["pkgutil"] = _PkgData(prog)
            V = ev.module_value("validators", draft)
            if not isinstance(V, ClsRef):
                return None
            for schema, inst, want in cases + extra:
                if draft == "Draft3Validator" and ("required" in schema and isinstance(schema["required"], list) or "multipleOf" in schema or "minProperties" in schema
                                                   or "maxProperties" in schema):
                    continue
                if draft in ("Draft3Validator", "Draft4Validator") and ("contains" in schema or "const" in schema or "propertyNames" in schema or "if" in schema):
                    continue
                try:
                    got = len(list(ev.obj_getattr(V(schema), "iter_errors")(inst)))
                except PyRaise as pr:
                    out["carriers"] = out["carriers"] or "%s(%r) on %r (a %s) raises %s" % (draft, schema, inst, type(inst).__name__, pr.name)
                    continue
                if got != want:
                    out["carriers"] = out["carriers"] or ("%s(%r) on %r -- a %s, which the draft's own type checker counts as %s -- reports %d errors; on the plain value "
                                                         "of the same kind it reports %d" % (draft, schema, inst, type(inst).__name__,
                                                                                            "a number" if isinstance(inst, (Decimal, Fraction)) else "that kind", got, want))
    except Undecided:
        return None
    except PyRaise as pr:
        out["raises"] = "raises %s (%s)" % (pr.name, pr.msg)
    return out
