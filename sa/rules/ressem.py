"""RefResolver evaluated by sa/tokeval.py: a resolver object of the package's own class, with recording stub handlers, is
asked to resolve references.  No network: every scenario goes through a handler; code that would reach requests/urlopen leaves
the evaluated fragment (Undecided) and the caller falls back to its structural rule.
Conventions as errsem: {clause: None | message}, or None when outside the fragment."""
from ..tokeval import Ev, ClsRef, Obj, Tok, FuncRef, BoundMethod, Undecided, PyRaise


def _resolver(prog, handlers=None, cache_remote=True, store=None, base="http://base/root/doc.json"):
    ev = Ev(prog, fuel=60000, real_errors=True)
    Obj.ev = ev
    R = prog.cls("validators.RefResolver")
    U = prog.cls("_utils.URIDict")
    st = Obj(U, {"store": dict(store or {})})
    st.ev = ev
    from urllib.parse import urljoin
    o = Obj(R, {"referrer": {}, "cache_remote": cache_remote, "handlers": dict(handlers or {}), "_scopes_stack": [base], "store": st,
                "_urljoin_cache": urljoin})
    o.ev = ev
    o.attrs["_remote_cache"] = BoundMethod(ev, ev.find_method(R, "resolve_from_url"), o)
    return ev, o, R, st


class Handler:
    def __init__(self, docs=None, exc=None):
        self.calls = []
        self.docs = docs or {}
        self.exc = exc

    def __call__(self, uri):
        self.calls.append(uri)
        if self.exc is not None:
            raise self.exc
        return self.docs[uri]


DOC = {"x": {"y": [1, 2]}, "definitions": {"a": {"type": "integer"}}}


def retrieval_eval(prog):
    out = {}
    try:
        # 1. store hit: nothing is retrieved; the fragment is followed inside the stored document
        h = Handler({"sch://host/doc": DOC})
        ev, o, R, st = _resolver(prog, {"sch": h, "http": h}, store={"http://a/doc": DOC})
        rfu, rr, res = (ev.find_method(R, n) for n in ("resolve_from_url", "resolve_remote", "resolve"))
        got = ev.call_func(rfu, [o, "http://a/doc#/x/y"], {})
        out["store-first"] = None
        if got is not DOC["x"]["y"] or h.calls:
            out["store-first"] = "a document in the store is not used as it is (handler called %d times, result %r)" % (len(h.calls), got)
        # 2. store miss: one retrieval of the fragment-free URL, the fragment followed in what came back
        got = ev.call_func(rfu, [o, "sch://host/doc#/definitions/a"], {})
        out["key"] = None
        if h.calls != ["sch://host/doc"]:
            out["key"] = "the retrieval is not made once for the fragment-free URL (handler saw %r)" % (h.calls,)
        elif got is not DOC["definitions"]["a"]:
            out["key"] = "the fragment is not followed inside the retrieved document (got %r)" % (got,)
        # 3. cached: filed under the URL it was asked for, found again without a second retrieval
        out["cached"] = None
        inner = st.attrs["store"]
        if inner.get("sch://host/doc") is not DOC:
            out["cached"] = "with cache_remote on, the retrieved document is not filed under the URL it was retrieved for (store keys %r)" % (sorted(inner),)
        else:
            ev.call_func(rfu, [o, "sch://host/doc#/x"], {})
            if len(h.calls) != 1:
                out["cached"] = "a cached document is retrieved again (%d retrievals)" % len(h.calls)
        # 3b. falsy documents ({} and false are schemas too) are cached like any other; escaped URLs are used as written
        for doc in ({}, False, [], 0, None, ""):
            h5 = Handler({"sch://host/empty": doc})
            ev5, o5, R5, st5 = _resolver(prog, {"sch": h5})
            rfu5 = ev5.find_method(R5, "resolve_from_url")
            a = ev5.call_func(rfu5, [o5, "sch://host/empty"], {})
            b = ev5.call_func(rfu5, [o5, "sch://host/empty#"], {})
            if len(h5.calls) != 1 or "sch://host/empty" not in st5.attrs["store"] or a is not doc or b is not doc:
                out["cached"] = out["cached"] or "the retrieved document %r is not cached like any other (retrieved %d times)" % (doc, len(h5.calls))
        # a document that *is* null (or any other falsy value) is in the store like any other: found, not fetched
        for doc in (None, False, 0, "", [], {}):
            h7 = Handler({})
            ev7, o7, R7, st7 = _resolver(prog, {"sch": h7, "http": h7}, store={"http://a/falsy.json": doc})
            try:
                got7 = ev7.call_func(ev7.find_method(R7, "resolve_from_url"), [o7, "http://a/falsy.json#"], {})
            except PyRaise as pr:
                got7 = "<%s>" % pr.name
            if got7 is not doc or h7.calls:
                out["store-first"] = out["store-first"] or "the stored document %r is not used as it is (got %r, retrievals attempted: %r)" % (doc, got7, h7.calls)
        h6 = Handler({"sch://host/my%20doc.json": DOC})
        ev6, o6, R6, st6 = _resolver(prog, {"sch": h6, "http": h6}, store={"http://a/my%20doc.json": DOC, "http://a/caf%C3%A9/x%2Fy.json": {"x": "escaped"}})
        rfu6 = ev6.find_method(R6, "resolve_from_url")
        try:
            ok6 = ev6.call_func(rfu6, [o6, "http://a/my%20doc.json#/x/y"], {}) is DOC["x"]["y"] and ev6.call_func(rfu6, [o6, "http://a/caf%C3%A9/x%2Fy.json#/x"], {}) == "escaped"
        except PyRaise:
            ok6 = False
        if not ok6 or h6.calls:
            out["store-first"] = out["store-first"] or "a stored document whose URL contains percent-escapes is not found under that URL (retrievals attempted: %r)" % (h6.calls,)
        del h6.calls[:]
        try:
            ev6.call_func(rfu6, [o6, "sch://host/my%20doc.json#/x"], {})
        except PyRaise:
            pass
        if h6.calls != ["sch://host/my%20doc.json"]:
            out["key"] = out["key"] or "a URL with percent-escapes is not retrieved as written (handler saw %r)" % (h6.calls,)
        # 4. cache_remote off: nothing is filed
        h2 = Handler({"sch://host/doc": DOC})
        ev2, o2, R2, st2 = _resolver(prog, {"sch": h2}, cache_remote=False)
        ev2.call_func(ev2.find_method(R2, "resolve_from_url"), [o2, "sch://host/doc#"], {})
        out["uncached"] = None
        if st2.attrs["store"]:
            out["uncached"] = "with cache_remote off the store is written all the same (%r)" % (sorted(st2.attrs["store"]),)
        # 5. any failure of the retrieval surfaces as RefResolutionError
        out["wrapped"] = None
        for exc in (KeyError("k"), ValueError("v"), OSError("o"), RuntimeError("r")):
            h3 = Handler(exc=exc)
            ev3, o3, R3, st3 = _resolver(prog, {"sch": h3})
            try:
                ev3.call_func(ev3.find_method(R3, "resolve_from_url"), [o3, "sch://host/none"], {})
                out["wrapped"] = "a failing retrieval (%s) raises nothing" % type(exc).__name__
            except PyRaise as pr:
                if pr.name != "RefResolutionError":
                    out["wrapped"] = "a retrieval failing with %s surfaces as %s, not RefResolutionError" % (type(exc).__name__, pr.name)
            if st3.attrs["store"]:
                out["wrapped"] = "a failed retrieval leaves an entry in the store"
        # 5b. a pointer that designates nothing gives the same RefResolutionError whether the document was in the store or just retrieved
        msgs = []
        for how in ("stored", "retrieved", "retrieved-uncached"):
            h8 = Handler({"sch://host/doc": DOC})
            ev8, o8, R8, st8 = _resolver(prog, {"sch": h8}, store={"sch://host/doc": DOC} if how == "stored" else None, cache_remote=(how != "retrieved-uncached"))
            try:
                ev8.call_func(ev8.find_method(R8, "resolve_from_url"), [o8, "sch://host/doc#/definitions/nickname"], {})
                msgs.append((how, "no error"))
            except PyRaise as pr:
                eo = getattr(pr, "obj", None)
                inner = None
                if isinstance(eo, BaseException) and eo.args:
                    inner = eo.args[0]
                elif isinstance(eo, Obj):
                    inner = next((v for v in eo.attrs.values() if isinstance(v, (Obj, BaseException, PyRaise))), None)
                wraps = isinstance(inner, (BaseException, PyRaise)) or (isinstance(inner, Obj) and "Error" in inner.cls.name)
                msgs.append((how, "%s%s" % (pr.name, " [wrapping another %s]" % (inner.cls.name if isinstance(inner, Obj) else type(inner).__name__) if wraps else "")))
            if how == "stored" and h8.calls:
                out["store-first"] = out["store-first"] or ("a pointer that designates nothing in a *stored* document makes the resolver retrieve the document "
                                                            "(handler asked for %r): the store is no longer what its URL designates" % (h8.calls,))
            if how == "stored" and st8.attrs["store"].get("sch://host/doc") is not DOC:
                out["store-first"] = out["store-first"] or "after a pointer that designates nothing the stored document has been replaced"
        if len({m for _h, m in msgs}) != 1 or not msgs[0][1].startswith("RefResolutionError") or "wrapping" in msgs[0][1]:
            out["wrapped"] = out["wrapped"] or "an unresolvable pointer is reported differently depending on where the document came from: %r" % (msgs,)
        # 6. resolve(): the reference is joined to the scope in force; the pair (full URL, what that URL designates) comes back
        h4 = Handler()
        ev4, o4, R4, st4 = _resolver(prog, {"http": h4}, store={"http://base/root/other.json": DOC, "http://base/sub/other.json": {"x": "sub"},
                                                       "http://base/root/a%2Fb.json": {"x": "escaped"}, "http://base/root/a/b.json": {"x": "plain"},
                                                       "http://base/root/a%20b.json": {"x": "space"}})
        res4 = ev4.find_method(R4, "resolve")
        out["join"] = None
        url, val = ev4.call_func(res4, [o4, "other.json#/x"], {})
        if url != "http://base/root/other.json#/x" or val is not DOC["x"]:
            out["join"] = "resolve('other.json#/x') under scope http://base/root/doc.json gives (%r, %r)" % (url, val)
        for ref, want in (("a%2Fb.json#/x", "escaped"), ("a/b.json#/x", "plain"), ("a%20b.json#/x", "space")):
            try:
                url, val = ev4.call_func(res4, [o4, ref], {})
            except PyRaise as pr:
                url, val = None, "<%s>" % pr.name
            if val != want or url != "http://base/root/" + ref:
                out["join"] = "resolve(%r) gives (%r, %r): the URL looked up is not the joined URL as written" % (ref, url, val)
        ev4.call_func(ev4.find_method(R4, "push_scope"), [o4, "../sub/"], {})
        url, val = ev4.call_func(res4, [o4, "other.json#/x"], {})
        if url != "http://base/sub/other.json#/x" or val != "sub":
            out["join"] = "after push_scope('../sub/') the same reference gives (%r, %r): it is not joined to the scope now in force" % (url, val)
        ev4.call_func(ev4.find_method(R4, "pop_scope"), [o4], {})
        if o4.attrs["_scopes_stack"] != ["http://base/root/doc.json"]:
            out["join"] = "push_scope/pop_scope do not restore the scope stack (%r)" % (o4.attrs["_scopes_stack"],)
    except Undecided:
        return None
    except PyRaise as pr:
        out["raises"] = "raises %s (%s)" % (pr.name, pr.msg)
    return out


def handler_docs_eval(prog):
    """What a handler hands back *is* the document: a JSON string, number, null or array at the root is not parsed again, decoded or
    replaced.  -> message | '' | None"""
    try:
        for doc in ("[10, 20]", "plain text", '"quoted"', ["a"], 7, None, True, {}, b"bytes"):
            log = []

            def handler(u, doc=doc, log=log):
                log.append(u)
                return doc
            ev, o, R, st = _resolver(prog, {"sch": handler}, cache_remote=True)
            ev.ext["requests"] = ImportError("requests")
            try:
                got = ev.call_func(ev.find_method(R, "resolve_remote"), [o, "sch://host/doc"], {})
            except PyRaise as pr:
                return "a handler returning %r makes resolve_remote raise %s" % (doc, pr.name)
            if got is not doc:
                return "a handler returned %r; resolve_remote hands back %r (the document is what the handler returned, unchanged)" % (doc, got)
            if not any(v is doc for v in st.attrs["store"].values()):
                return "a handler returned %r; with cache_remote on it is not filed as it is" % (doc,)
    except Undecided:
        return None
    return ""


def from_schema_eval(prog):
    """RefResolver.from_schema(schema, **kw) is RefResolver(base_uri=id_of(schema), referrer=schema, **kw): every constructor option
    reaches the resolver.  -> message | '' | None"""
    try:
        ev = Ev(prog, fuel=80000, real_errors=True)
        Obj.ev = ev
        R = ClsRef(ev, prog.cls("validators.RefResolver"))
        fs = ev.expr(__import__("ast").parse("C.from_schema", mode="eval").body, {"C": R}, None)
        g = lambda o, n: ev.obj_getattr(o, n)
        schema = {"$id": "http://fs/root.json", "id": "http://fs/old.json"}
        handlers = {"sch": lambda u: None}
        uj, rc = (lambda a, b: "joined"), (lambda u: "fetched")
        r1 = fs(schema, cache_remote=False, handlers=handlers, store={"http://fs/extra": {"e": 1}}, urljoin_cache=uj, remote_cache=rc)
        if g(r1, "cache_remote") is not False:
            return "from_schema(schema, cache_remote=False) gives a resolver with cache_remote=%r" % (g(r1, "cache_remote"),)
        if dict(g(r1, "handlers")) != handlers:
            return "from_schema does not hand `handlers` on to the resolver"
        if "http://fs/extra" not in g(r1, "store"):
            return "from_schema does not hand `store` on to the resolver"
        if g(r1, "_urljoin_cache") is not uj or g(r1, "_remote_cache") is not rc:
            return "from_schema does not hand the caches on to the resolver"
        if g(r1, "referrer") is not schema or g(r1, "resolution_scope") != "http://fs/root.json":
            return "from_schema does not base the resolver on the schema's own id (%r)" % (g(r1, "resolution_scope"),)
        r2 = fs(schema, id_of=lambda s: s.get("id", ""))
        if g(r2, "resolution_scope") != "http://fs/old.json" or g(r2, "cache_remote") is not True:
            return "from_schema(schema, id_of=...) does not read the id with the function given (or changes the defaults)"
    except Undecided:
        return None
    except PyRaise as pr:
        return "raises %s (%s)" % (pr.name, pr.msg)
    return ""


class _Registered:
    def __init__(self, meta):
        self.META_SCHEMA = meta


def init_eval(prog):
    """RefResolver(...) constructed inside the interpreter: seeding order of the store (registry, then the caller's store, then the
    referrer), per-instance state, default caches created per resolver and only when none is supplied."""
    out = {}
    try:
        ev = Ev(prog, fuel=80000, real_errors=True)
        Obj.ev = ev
        Rc = prog.cls("validators.RefResolver")
        R = ClsRef(ev, Rc)
        vm = prog.mod("validators")
        reg = ev.resolved(prog.resolve_name(vm, "meta_schemas"), "meta_schemas")
        META1, META2 = {"id": "http://reg/one"}, {"id": "http://reg/two"}
        reg["http://reg/one#"] = _Registered(META1)
        reg["http://reg/two"] = _Registered(META2)
        referrer, mine, theirs = {"$id": "http://b/"}, {"mine": 1}, {"theirs": 2}
        caller_store = {"http://reg/two": mine, "http://b/": theirs, "http://other/": theirs, "http://frag/#": theirs}
        handlers = {"sch": lambda uri: None}
        r1 = R("http://b/", referrer, store=caller_store, handlers=handlers)
        g = lambda o, n: ev.obj_getattr(o, n)
        st = g(r1, "store")
        out["seed"] = None
        got = {k: st[k] for k in ("http://reg/one", "http://reg/two", "http://b/", "http://other/") if k in st}
        if got.get("http://reg/one") is not META1:
            out["seed"] = "a registered metaschema is not in a new resolver's store under its id (found %r)" % (got.get("http://reg/one"),)
        elif got.get("http://other/") is not theirs:
            out["seed"] = "the caller's store entries are not taken over"
        elif "http://frag/" not in st or st["http://frag/"] is not theirs:
            out["seed"] = "an entry of the caller's store written with an empty fragment ('http://frag/#') is not found under 'http://frag/': its key was not normalised"
        out["seed-order"] = None
        if got.get("http://reg/two") is not mine:
            out["seed-order"] = "an entry of the caller's store does not replace the registry's entry for the same URI"
        elif got.get("http://b/") is not referrer:
            out["seed-order"] = "the referrer is not what its own base URI designates when the caller's store has an entry for that URI"
        if not (isinstance(st, Obj) and st.cls.name == "URIDict"):
            out["seed"] = "the store is not a URIDict"
        # per-instance state
        out["state"] = None
        r2 = R("http://c/", {}, handlers=handlers)
        if g(r1, "_scopes_stack") is g(r2, "_scopes_stack") or g(r1, "store") is g(r2, "store") or g(r1, "handlers") is g(r2, "handlers") \
                or g(r1, "handlers") is handlers:
            out["state"] = "two resolvers share a scope stack, a store or a handler table (or alias the caller's)"
        elif g(r1, "_scopes_stack") != ["http://b/"] or g(r1, "referrer") is not referrer or g(r1, "cache_remote") is not True:
            out["state"] = "base URI / referrer / cache_remote are not recorded as given"
        elif "http://reg/one" not in g(r2, "store") or "http://other/" in g(r2, "store"):
            out["state"] = "a second resolver does not start from the registry alone"
        # the handler table is live: what a caller registers on the resolver object afterwards is what retrieval consults
        late = []
        r6 = R("http://g/", {}, handlers={"sch": lambda uri: {"from": "first"}})
        g(r6, "handlers")["sch"] = lambda uri: late.append(uri) or {"from": "second"}
        g(r6, "handlers")["new"] = lambda uri: late.append(uri) or {"from": "new"}
        try:
            got6 = (g(r6, "resolve_remote")("sch://h/a"), g(r6, "resolve_remote")("new://h/b"))
        except PyRaise as pr:
            got6 = "<%s>" % pr.name
        if got6 != ({"from": "second"}, {"from": "new"}):
            out["state"] = out["state"] or ("a handler registered on (or replaced in) resolver.handlers after construction is not what retrieval uses: %r" % (got6,))
        # a caller's store that is itself a URIDict is copied, not adopted
        U = ClsRef(ev, prog.cls("_utils.URIDict"))
        theirs_store = U()
        theirs_store["http://x/"] = theirs
        r4 = R("http://e/", {"e": 1}, store=theirs_store)
        if g(r4, "store") is theirs_store or sorted(iter(theirs_store)) != ["http://x/"]:
            out["state"] = "a URIDict passed as `store` is adopted as the resolver's own store (and written to) instead of being copied"
        # caches
        out["caches"] = None
        if g(r1, "_urljoin_cache") is g(r2, "_urljoin_cache") or g(r1, "_remote_cache") is g(r2, "_remote_cache"):
            out["caches"] = "the default caches are shared between resolvers"
        else:
            u, m = (lambda a, b: "joined"), (lambda url: "cached")
            r3 = R("http://d/", {}, urljoin_cache=u, remote_cache=m)
            if g(r3, "_urljoin_cache") is not u or g(r3, "_remote_cache") is not m:
                out["caches"] = "caches supplied by the caller are not used as given"
            elif g(r1, "_remote_cache")("http://other/#/theirs") != 2 or g(r2, "_urljoin_cache")("http://c/x/y", "../z") != "http://c/z":
                out["caches"] = "the default caches are not caches of this resolver's resolve_from_url / of urljoin"
            else:
                hits = []

                def h(uri):
                    hits.append(uri)
                    return {"x": 1}
                r5 = R("http://f/", {}, handlers={"sch": h}, cache_remote=False)
                g(r5, "_remote_cache")("sch://host/doc#/x")
                g(r5, "_remote_cache")("sch://host/doc#/x")
                if len(hits) != 1:
                    out["caches"] = "the default remote cache does not cache: the same URL is retrieved %d times" % len(hits)
        ev.native(lambda: [reg.__delitem__(k) for k in ("http://reg/one", "http://reg/two")])
    except Undecided:
        return None
    except PyRaise as pr:
        out["raises"] = "raises %s (%s)" % (pr.name, pr.msg)
    return out



def custom_scheme_eval(prog):
    """References written inside a document whose URL has a scheme urllib.parse does not list as hierarchical -- a handler's own
    scheme (`mem://host/dir/defs.json`), `urn:` -- must resolve against that document (RFC 3986 5.2.2: a fragment-only reference
    designates the base document itself, whatever its scheme; a relative path replaces the base's last segment).  A resolver built by
    the package's own constructor, once with its default caches and once with `urljoin_cache=urllib.parse.urljoin` supplied, enters the
    scope of such a document (as `$ref` does after resolving a reference to it) and resolves references found there.
    -> {clause: message | None} or None."""
    from urllib.parse import urljoin
    out = {"fragment-only": None, "relative-path": None, "urn-fragment": None, "caches-agree": None}
    seen = {}
    try:
        for label, extra in (("default caches", {}), ("urljoin_cache=urljoin supplied", {"urljoin_cache": urljoin})):
            ev = Ev(prog, fuel=80000, real_errors=True)
            Obj.ev = ev
            R = ClsRef(ev, prog.cls("validators.RefResolver"))
            h = Handler({"mem://host/dir/defs.json": DOC, "mem://host/dir/other.json": {"x": "other"}})

            def urlopen(u, *a, **k):
                # what urllib answers for a URL without a scheme it can open; there is no network in the evaluated fragment
                raise PyRaise("ValueError", "unknown url type: %r" % (u,))
            ev.ext["urllib.request.urlopen"] = urlopen
            ev.ext["urllib.request"] = type("M", (), {"urlopen": staticmethod(urlopen)})
            ev.ext["requests"] = None
            r = R("", {"root": True}, handlers={"mem": h}, store={"urn:example:doc": DOC}, **extra)
            g = lambda n, r=r, ev=ev: ev.obj_getattr(r, n)
            rows = (("fragment-only", "mem://host/dir/defs.json", "#/definitions/a", "mem://host/dir/defs.json#/definitions/a", DOC["definitions"]["a"]),
                    ("relative-path", "mem://host/dir/defs.json", "other.json#/x", "mem://host/dir/other.json#/x", "other"),
                    ("urn-fragment", "urn:example:doc", "#/definitions/a", "urn:example:doc#/definitions/a", DOC["definitions"]["a"]))
            for clause, scope, ref, want_url, want_val in rows:
                g("push_scope")(scope)
                try:
                    url, val = g("resolve")(ref)
                except PyRaise as pr:
                    url, val = "<%s>" % pr.name, None
                g("pop_scope")()
                seen.setdefault(clause, []).append((url, val))
                if (url, val) != (want_url, want_val) and out[clause] is None:
                    out[clause] = ("inside the document %s the reference %r resolves to %s%s (%s); RFC 3986 makes it %s -- the join ignores a base whose scheme "
                                   "urllib.parse does not list as hierarchical" % (scope, ref, url, "" if val is None else " = %r" % (val,), label, want_url))
        for clause, got in seen.items():
            if len(got) == 2 and got[0] != got[1]:
                out["caches-agree"] = ("%s: with the default caches the reference resolves to %r, with urllib.parse.urljoin supplied as urljoin_cache to %r: "
                                       "the default cache is not a cache of the same join" % (clause, got[0][0], got[1][0]))
    except Undecided:
        return None
    except PyRaise as pr:
        out["raises"] = "raises %s (%s)" % (pr.name, pr.msg)
    return out


def join_eval(prog):
    """References written inside a document under an ordinary base (`http://base/dir/root.json`) designate what RFC 3986 5.2 says,
    whatever characters the reference contains after its first segment: a colon in a later path segment, in the query or in the
    fragment does not make a reference absolute (only a scheme in front does), `//host/...` keeps the scheme, `..` climbs.  The package's
    own resolver (default caches) enters the base and resolves each row; every target document is in its store, a handler that records
    its calls stands behind `http` so that a miss is seen as a retrieval rather than as the network.
    -> {row label: message | None} or None."""
    out = {}
    try:
        ev = Ev(prog, fuel=120000, real_errors=True)
        Obj.ev = ev
        R = ClsRef(ev, prog.cls("validators.RefResolver"))
        types = {"definitions": {"xs:int": {"type": "integer"}, "a/b": 1, "plain": 2}}
        root = {"definitions": {"q:name": {"type": "string"}, "plain": 3}}
        store = {"http://base/dir/types.json": types, "http://base/dir/a:b.json": {"x": "colon in a later... first relative segment"},
                 "http://base/dir/sub/x:y.json": {"x": "colon in a later segment"}, "http://base/up.json": {"x": "up"},
                 "http://other.host/doc.json": {"x": "network-path"}, "http://abs/doc.json": {"x": "absolute"},
                 "http://base/rooted.json": {"x": "rooted"}, "urn:example:thing": {"x": "urn"}}
        h = Handler({})

        def urlopen(u, *a, **k):
            # what urllib answers for a URL without a scheme it can open; there is no network in the evaluated fragment
            raise PyRaise("ValueError", "unknown url type: %r" % (u,))
        ev.ext["urllib.request.urlopen"] = urlopen
        ev.ext["urllib.request"] = type("M", (), {"urlopen": staticmethod(urlopen)})
        ev.ext["requests"] = None
        r = R("http://base/dir/root.json", root, handlers={"http": h, "https": h}, store=dict(store))
        g = lambda n: ev.obj_getattr(r, n)
        rows = (("colon in the fragment", "types.json#/definitions/xs:int", "http://base/dir/types.json#/definitions/xs:int", types["definitions"]["xs:int"]),
                ("plain relative", "types.json#/definitions/plain", "http://base/dir/types.json#/definitions/plain", 2),
                ("colon in a ./ segment", "./a:b.json#/x", "http://base/dir/a:b.json#/x", store["http://base/dir/a:b.json"]["x"]),
                ("colon in a later segment", "sub/x:y.json#/x", "http://base/dir/sub/x:y.json#/x", "colon in a later segment"),
                ("fragment-only with a colon", "#/definitions/q:name", "http://base/dir/root.json#/definitions/q:name", root["definitions"]["q:name"]),
                ("fragment-only", "#/definitions/plain", "http://base/dir/root.json#/definitions/plain", 3),
                ("parent directory", "../up.json#/x", "http://base/up.json#/x", "up"),
                ("rooted path", "/rooted.json#/x", "http://base/rooted.json#/x", "rooted"),
                ("network-path", "//other.host/doc.json#/x", "http://other.host/doc.json#/x", "network-path"),
                ("absolute", "http://abs/doc.json#/x", "http://abs/doc.json#/x", "absolute"),
                ("absolute urn", "urn:example:thing#/x", "urn:example:thing#/x", "urn"))
        for label, ref, want_url, want_val in rows:
            del h.calls[:]
            try:
                url, val = g("resolve")(ref)
            except PyRaise as pr:
                url, val = "<%s: %s>" % (pr.name, str(pr.msg)[:80]), None
            out[label] = None
            if (url, val) != (want_url, want_val) or h.calls:
                out[label] = ("under the base http://base/dir/root.json the reference %r resolves to %s%s%s; RFC 3986 5.2 makes it %s, which is in the store"
                              % (ref, url, "" if val is None else " = %r" % (val,), " after asking the handler for %r" % (h.calls,) if h.calls else "", want_url))
    except Undecided:
        return None
    except PyRaise as pr:
        out["raises"] = "raises %s (%s)" % (pr.name, pr.msg)
    return out


class _Requests:
    """stand-in for the optional `requests` library: records what it is asked for"""
    def __init__(self, log, docs):
        self.log, self.docs = log, docs

    def get(self, uri, *a, **k):
        self.log.append(("requests", uri))
        docs = self.docs

        class Resp:
            def json(self_):
                return docs[("requests", uri)]
        return Resp()

    def __bool__(self):
        return True


class _UrlopenResult:
    def __init__(self, data):
        self.data = data

    def read(self):
        return self.data

    def __enter__(self):
        return self

    def __exit__(self, *a):
        return False


def selection_eval(prog):
    """resolve_remote(uri) for every combination of scheme x registered handlers x `requests` importable or not: which of the three
    retrievers (handler, requests, urlopen) is asked, with which URL, what comes back, and whether it is filed in the store."""
    import json as _json
    from urllib.parse import urlsplit
    out = {"handler-first": None, "requests-http-only": None, "urlopen-otherwise": None, "filed": None}
    try:
        # a registered handler that fails -- with KeyError, LookupError, AttributeError or anything else -- has still been *chosen*: no
        # other retriever is tried behind its back
        for exc_name in ("KeyError", "LookupError", "AttributeError", "ImportError", "ValueError"):
            for uri in ("http://host/doc", "sch://host/doc"):
                log = []

                def failing(u, log=log, exc_name=exc_name):
                    log.append(("handler", u))
                    raise PyRaise(exc_name, "the handler's own failure")

                def urlopen2(u, *a, log=log, **k):
                    log.append(("urlopen", u))
                    return _UrlopenResult(b"{}")
                ev, o, R, st = _resolver(prog, {"http": failing, "sch": failing})
                ev.ext["requests"] = _Requests(log, {("requests", uri): {"via": "requests"}})
                ev.ext["urllib.request.urlopen"] = urlopen2
                ev.ext["urllib.request"] = type("M", (), {"urlopen": staticmethod(urlopen2)})
                try:
                    ev.call_func(ev.find_method(R, "resolve_remote"), [o, uri], {})
                    outcome = "returns normally"
                except PyRaise as pr:
                    outcome = pr.name
                if log != [("handler", uri)] or outcome != exc_name:
                    out["handler-first"] = out["handler-first"] or ("%s with a handler that raises %s: retrievers asked %r, outcome %s; expected the handler alone and its "
                                                                    "exception (resolve_from_url wraps it)" % (uri, exc_name, log, outcome))
        uris = {"sch": "sch://host/doc", "http": "http://host/doc", "https": "https://host/doc", "ftp": "ftp://host/doc", "file": "file:///tmp/doc",
                "HTTP": "HTTP://host/doc", "urn": "urn:example:doc"}
        for hset in ((), ("sch",), ("http",), ("https", "ftp"), ("sch", "http", "https", "ftp", "file", "urn")):
            for have_requests in (True, False):
                for cache_remote in (True, False):
                    for sk, uri in uris.items():
                        log = []
                        docs = {("handler", uri): {"via": "handler"}, ("requests", uri): {"via": "requests"}}

                        def handler(u, log=log, docs=docs):
                            log.append(("handler", u))
                            return docs[("handler", u)]

                        def urlopen(u, *a, log=log, **k):
                            log.append(("urlopen", u))
                            return _UrlopenResult(_json.dumps({"via": "urlopen", "text": "é"}).encode("utf-8"))
                        ev, o, R, st = _resolver(prog, {h: handler for h in hset}, cache_remote=cache_remote)
                        ev.ext["requests"] = _Requests(log, docs) if have_requests else ImportError("requests")
                        ev.ext["urllib.request.urlopen"] = urlopen
                        ev.ext["urllib.request"] = type("M", (), {"urlopen": staticmethod(urlopen)})
                        scheme = sk.lower()
                        want = "handler" if scheme in hset else ("requests" if scheme in ("http", "https") and have_requests else "urlopen")
                        label = "%s with handlers for %s, requests %s" % (uri, list(hset) or "nothing", "importable" if have_requests else "not installed")
                        try:
                            got = ev.call_func(ev.find_method(R, "resolve_remote"), [o, uri], {})
                        except PyRaise as pr:
                            clause = {"handler": "handler-first", "requests": "requests-http-only", "urlopen": "urlopen-otherwise"}[want]
                            out[clause] = out[clause] or "%s: raises %s (%s)" % (label, pr.name, pr.msg)
                            continue
                        if log != [(want, uri)]:
                            if want == "handler" or any(l[0] == "handler" for l in log):
                                clause = "handler-first"
                            elif want == "requests" or any(l[0] == "requests" for l in log):
                                clause = "requests-http-only"
                            else:
                                clause = "urlopen-otherwise"
                            out[clause] = out[clause] or "%s: asked %r, expected exactly one retrieval through %s with the URL as given" % (label, log, want)
                            continue
                        wantdoc = {"via": want} if want != "urlopen" else {"via": "urlopen", "text": "é"}
                        if got != wantdoc or (want != "urlopen" and got is not docs[(want, uri)]):
                            clause = {"handler": "handler-first", "requests": "requests-http-only", "urlopen": "urlopen-otherwise"}[want]
                            out[clause] = out[clause] or "%s: returns %r, expected what %s delivered" % (label, got, want)
                        inner = st.attrs["store"]
                        if cache_remote and not any(v is got for v in inner.values()):
                            out["filed"] = out["filed"] or "%s: with cache_remote on, the document is not filed in the store" % label
                        elif cache_remote and uri not in inner and urlsplit(uri).geturl() not in inner:
                            out["filed"] = out["filed"] or "%s: filed under %r, not under the URL retrieved" % (label, sorted(inner))
                        elif not cache_remote and inner:
                            out["filed"] = out["filed"] or "%s: with cache_remote off, the store is written (%r)" % (label, sorted(inner))
    except Undecided:
        return None
    except PyRaise as pr:
        out["raises"] = "raises %s (%s)" % (pr.name, pr.msg)
    return out
