"""cli.run evaluated by sa/tokeval.py on a table of scenarios: schema file state x list of instance file states (or stdin) x
output mode x explicit validator x base URI, with an in-memory `open`, recording stub validator classes and StringIO streams.
For every scenario: the exit status, which files were opened and in which order, what was validated, and what was written to
which stream are compared with what the property prescribes.  Conventions as errsem: {clause: None | message} or None."""
import errno
import io
import itertools
import json

from ..tokeval import Ev, ClsRef, Obj, Tok, Undecided, PyRaise


class _Sys:
    """`sys` as cli.py uses it: exc_info() of the exception being handled, nothing else"""
    def __init__(self, ev):
        self._ev = ev
        self.stdout = self.stderr = self.stdin = None
        self.argv = ["jsonschema"]
        self.current = None

    def exc_info(self):
        pr = self.current
        if pr is None:
            return (None, None, None)
        obj = pr.obj if isinstance(pr.obj, BaseException) else Exception(pr.msg)
        return (type(obj), obj, None)


MISSING, NOTJSON, NOTUTF8, CTRL, NULL = "missing", "not-json", "not-utf8", "raw-control-character", "null-document"


def loadable(st):
    return isinstance(st, dict) or st == NULL


def n_errors(st):
    return st["errors"] if isinstance(st, dict) else 0


def value_of(st):
    return None if st == NULL else st


def _files(spec):
    """{path: state}: state is MISSING, NOTJSON, NOTUTF8 or a JSON value"""
    opened = []

    def fake_open(path, mode="r", *a, **k):
        opened.append(path)
        st = spec.get(path, MISSING)
        if st == MISSING:
            raise FileNotFoundError(errno.ENOENT, "No such file or directory", path)
        if st == NOTJSON:
            return io.StringIO("{not json")
        if st == CTRL:
            return io.StringIO('{"a": "tab\there"}')       # a raw TAB inside a string literal: not JSON
        if st == NOTUTF8:
            return io.TextIOWrapper(io.BytesIO(b'{"a": "\xff\xfe"}'), encoding="utf-8")
        return io.StringIO(json.dumps(value_of(st)))
    return fake_open, opened


class StubValidatorClass:
    def __init__(self, name, ev, log, SE, VE):
        self.name, self.ev, self.log, self.SE, self.VE = name, ev, log, SE, VE
        self.META_SCHEMA = {"$id": "http://reg/%s" % name.lower()}

    def check_schema(self, schema):
        self.log.append((self.name, "check_schema", schema))
        if isinstance(schema, dict) and schema.get("invalid"):
            raise PyRaise("SchemaError", "bad schema", cls=self.SE.cls, obj=self.SE("bad schema"))

    def __call__(self, schema, *args, **kwargs):
        self.log.append((self.name, "construct", schema, kwargs.get("resolver")))
        outer = self

        class Inst:
            def iter_errors(self, instance, *a):
                outer.log.append((outer.name, "iter_errors", instance))
                n = instance.get("errors", 0) if isinstance(instance, dict) else 0
                if isinstance(instance, dict) and instance.get("then_raise"):
                    def gen():
                        for i in range(n):
                            yield outer.VE("E%d" % i, instance=instance)
                        raise PyRaise("RuntimeError", "the validator fails part-way")
                    return gen()
                return iter([outer.VE("E%d" % i, instance=instance) for i in range(n)])
        return Inst()


class _Tty(io.StringIO):
    """standard input attached to a terminal: still the place the instance is read from"""
    def isatty(self):
        return True


def run_scenario(prog, schema_state, instances, output="plain", explicit=False, base_uri=None, stdin_state=None, repeat_first=False, names=None, decoys=None, tty=False,
                 _err=None, error_format=None):
    """-> dict(exit, opened, log, out, err)"""
    ev = Ev(prog, fuel=120000, real_errors=True)
    Obj.ev = ev
    SE = ClsRef(ev, prog.cls("exceptions.SchemaError"))
    VE = ClsRef(ev, prog.cls("exceptions.ValidationError"))
    log = []
    chosen, given = StubValidatorClass("Chosen", ev, log, SE, VE), StubValidatorClass("Given", ev, log, SE, VE)
    spec = {"schema.json": schema_state}
    paths = []
    spec.update(decoys or {})
    for i, st in enumerate(instances or []):
        p = names[i] if names else "i%d.json" % i
        spec[p] = st
        paths.append(p)
    if repeat_first and paths:
        paths.append(paths[0])          # the same file named twice on the command line
    fake_open, opened = _files(spec)
    ev.builtins["open"] = fake_open
    sysstub = _Sys(ev)
    ev.ext["sys"] = sysstub
    # validator_for is the library's own; the scenario's registry decides what it returns
    ev.preset("validators", "Draft7Validator", chosen)
    other = StubValidatorClass("Other", ev, log, SE, VE)
    ev.module_value("validators", "meta_schemas")["http://reg/other"] = other
    out, err = io.StringIO(), (_err if _err is not None else io.StringIO())
    SIO = _Tty if tty else io.StringIO
    if stdin_state is None:
        stdin = SIO("")
    elif stdin_state == NOTJSON:
        stdin = SIO("{not json")
    else:
        stdin = SIO(json.dumps(value_of(stdin_state)))
    arguments = {"validator": given if explicit else None, "schema": "schema.json", "instances": paths if instances is not None else None,
                 "error_format": (error_format if error_format is not None else "<{error.message}>\u2713\u00e9") if output == "plain" else None, "output": output, "base_uri": base_uri}
    run = prog.func("cli.run")
    # sys.exc_info(): track the exception being handled
    orig = ev.handler_matches

    def tracking(h, pr, env, func):
        ok = orig(h, pr, env, func)
        if ok:
            sysstub.current = pr
        return ok
    ev.handler_matches = tracking
    code = ev.call_func(run, [], {"arguments": arguments, "stdout": out, "stderr": err, "stdin": stdin})
    declared = isinstance(schema_state, dict) and schema_state.get("$schema") == "http://reg/other#"
    return {"exit": code, "opened": opened, "log": log, "out": out.getvalue(), "err": err.getvalue(), "paths": paths,
            "cls": "Given" if explicit else ("Other" if declared else "Chosen")}


def as_produced_eval(prog):
    """Errors are written as the library produces them: when the validator fails part-way through an instance (an unresolvable
    reference behind the third keyword), the errors it had reported before are on stderr by then.  '' | difference | None."""
    try:
        for output in ("plain", "pretty"):
            err = io.StringIO()
            try:
                ev_res = run_scenario(prog, {"type": "object"}, [{"errors": 2, "then_raise": True}], output=output, _err=err)
                return "a validator failing part-way through an instance does not make run() fail (exit %r)" % (ev_res["exit"],)
            except PyRaise as pr:
                if pr.name != "RuntimeError":
                    return "a validator failing part-way surfaces as %s" % pr.name
            text = err.getvalue()
            n_reports = (text.count("<E0>") + text.count("<E1>")) if output == "plain" else text.count("[ValidationError]")
            if n_reports != 2:
                return ("%s output: the validator reported two errors and then failed; stderr holds %r -- the errors already reported are not written as they "
                        "are produced" % (output, text[:120]))
    except Undecided:
        return None
    return ""


def cli_eval(prog):
    out = {k: None for k in ("exit", "all-instances", "schema-first", "reports", "streams", "diagnostics", "class", "resolver")}
    try:
        inst_states = [{"errors": 0}, {"errors": 1}, {"errors": 2}, MISSING, NOTJSON]
        scenarios = []
        for sst in (MISSING, NOTJSON, NOTUTF8, {"invalid": True}, {"type": "object"}):
            scenarios.append((sst, [{"errors": 0}, {"errors": 1}], "plain", False, None, None))
        good = {"type": "object"}
        for n in (1, 2, 3):
            for combo in itertools.product(range(len(inst_states)), repeat=n):
                if n == 3 and len(set(combo)) < 2:
                    continue
                if n == 3 and combo[0] > combo[2]:
                    continue        # keep the table moderate: a third of the length-3 orders
                scenarios.append((good, [inst_states[i] for i in combo], "plain", False, None, None))
        for combo in ((0, 1), (3, 0), (4, 2, 0), (0, 0), (1,), (NOTUTF8,)):
            sts = [inst_states[i] if isinstance(i, int) else i for i in combo]
            scenarios.append((good, sts, "pretty", True, None, None))
        scenarios.append((good, [{"errors": 0}], "plain", True, "http://base/", None))
        scenarios.append((good, [{"errors": 1}, NOTUTF8, {"errors": 0}], "plain", False, None, None))
        scenarios.append((good, [CTRL, {"errors": 0}], "plain", False, None, None))
        declares = {"$schema": "http://reg/other#", "type": "object"}
        for explicit in (False, True):
            scenarios.append((declares, [{"errors": 0}, {"errors": 1}], "plain", explicit, None, None))
        for output in ("plain", "pretty"):
            scenarios.append((good, [NULL, {"errors": 1}, NULL], output, False, None, None))
            scenarios.append((good, None, output, False, None, NULL))
        scenarios.append((CTRL, [{"errors": 0}], "plain", False, None, None))
        for sin in ({"errors": 0}, {"errors": 2}, NOTJSON):
            scenarios.append((good, None, "plain", False, None, sin))
            scenarios.append((good, None, "pretty", True, None, sin))
        for output in ("plain", "pretty"):
            scenarios.append((good, [{"errors": 1}, {"errors": 0}, "REPEAT"], output, False, None, None))
            scenarios.append((good, [MISSING, "REPEAT"], output, False, None, None))
        # paths are used as written: a file system in which the *normalised* spelling of each odd path is another file (or none)
        ODD = ("sub/../i0.json", "./i1.json", "dir//i2.json", "@i3.json", " i4.json", "i5.JSON", "~/i6.json", "a/./b/../i7.json")
        decoy_ok = {p: {"errors": 0} for p in ("i0.json", "i1.json", "dir/i2.json", "i3.json", "i4.json", "i5.json", "i6.json", "a/i7.json")}
        scenarios.append((good, [MISSING, {"errors": 1}, {"errors": 2}, {"errors": 0}, MISSING, NOTJSON, {"errors": 0}, {"errors": 1}], "plain", False, None, None, ODD, decoy_ok))
        scenarios.append((good, [{"errors": 0}] * 8, "pretty", False, None, None, ODD, {p: {"errors": 3} for p in decoy_ok}))
        # --base-uri is the base, whatever the schema says about itself (a relative $id / id is the class's business, joined by the
        # validator against the resolver's base; the CLI neither reads nor joins it)
        for ids in ({"$id": "root.json", "type": "object"}, {"id": "../other/", "type": "object"}, {"$id": "http://elsewhere/s.json", "id": "x", "type": "object"}):
            for explicit in (False, True):
                scenarios.append((ids, [{"errors": 0}, {"errors": 1}], "plain", explicit, "http://base/dir/", None))
        # standard input attached to a terminal is read like any other
        for sin in ({"errors": 0}, {"errors": 2}):
            scenarios.append((good, None, "plain", False, None, sin, None, None, True))
        # what an error looks like on the terminal is the format's business; whether the instance was invalid is not: a format that
        # renders every error as nothing at all (or as very little) changes neither the exit status nor what is validated
        for fmt in ("", "{error.message:.0}", "\n"):
            for sts in ([{"errors": 1}], [{"errors": 0}, {"errors": 2}], [{"errors": 0}], [{"errors": 2}, {"errors": 0}]):
                scenarios.append((good, sts, "plain", False, None, None, None, None, False, fmt))
        n_run = 0
        for sc in scenarios:
            (sst, insts, output, explicit, base, sin), names, decoys = sc[:6], (sc[6] if len(sc) > 6 else None), (sc[7] if len(sc) > 7 else None)
            tty = sc[8] if len(sc) > 8 else False
            fmt = sc[9] if len(sc) > 9 else None
            rep = bool(insts) and insts[-1] == "REPEAT"
            if rep:
                insts = insts[:-1]
            res = run_scenario(prog, sst, insts, output, explicit, base, sin, repeat_first=rep, names=names, decoys=decoys, tty=tty, error_format=fmt)
            if rep:
                insts = insts + [insts[0]]
            n_run += 1
            label = "schema %s, instances %s, %s%s%s%s" % (
                sst if isinstance(sst, str) else ("invalid" if sst.get("invalid") else "valid"),
                "stdin:%s" % (sin if isinstance(sin, str) else sin["errors"]) if insts is None else [s if isinstance(s, str) else s["errors"] for s in insts],
                output, ", explicit class" if explicit else "", ", base uri" if base else "", ", error format %r" % fmt if fmt is not None else "")
            schema_ok = isinstance(sst, dict) and not sst.get("invalid")
            states = ([sin] if insts is None else insts) if schema_ok else []
            want_zero = schema_ok and all(loadable(s) and n_errors(s) == 0 for s in states)
            code = res["exit"]
            if not isinstance(code, int) or isinstance(code, bool) and False:
                out["exit"] = out["exit"] or "%s: the exit status is %r, not an integer" % (label, code)
            elif (code == 0) != want_zero:
                out["exit"] = out["exit"] or "%s: exit status %r, expected %s" % (label, code, "0" if want_zero else "non-zero")
            # schema first: nothing of the instances is touched when the schema is unusable
            if not schema_ok:
                if res["opened"] != ["schema.json"] or any(c[1] in ("construct", "iter_errors") for c in res["log"]):
                    out["schema-first"] = out["schema-first"] or "%s: instances are opened or validated although the schema is unusable (opened %r)" % (label, res["opened"])
                continue
            # every instance, in order, whatever happened before
            if insts is not None and res["opened"] != ["schema.json"] + res["paths"]:
                out["all-instances"] = out["all-instances"] or "%s: files opened %r, expected the schema and then every instance in order" % (label, res["opened"])
            validated = [c[2] for c in res["log"] if c[1] == "iter_errors"]
            want_validated = [value_of(s) for s in states if loadable(s)]
            if validated != want_validated:
                out["all-instances"] = out["all-instances"] or "%s: validated %r, expected every loadable instance once, in order" % (label, validated)
            # class and schema
            cs = [c for c in res["log"] if c[1] in ("check_schema", "construct")]
            if [c[0] for c in cs] != [res["cls"]] * 2 or [c[1] for c in cs] != ["check_schema", "construct"] or any(c[2] != sst for c in cs):
                out["class"] = out["class"] or "%s: check_schema/construction go to %r (expected %s, once each, with the loaded schema)" % (label, [(c[0], c[1]) for c in cs], res["cls"])
            cons = [c for c in res["log"] if c[1] == "construct"]
            if cons:
                rv = cons[0][3]
                if base is None and rv is not None:
                    out["resolver"] = out["resolver"] or "%s: a resolver is built although no base URI was given (the class would build its own)" % label
                if base is not None and not (isinstance(rv, Obj) and rv.cls.name == "RefResolver" and ev_attr(rv, "resolution_scope") == base and ev_attr(rv, "referrer") == sst):
                    out["resolver"] = out["resolver"] or "%s: the resolver is not one for the given base URI and the loaded schema" % label
                elif base is not None and (dict(ev_attr(rv, "handlers")) or ev_attr(rv, "cache_remote") is not True):
                    # how referenced files are retrieved is the resolver's business (its handling of file: URLs, percent-escapes included)
                    out["resolver"] = out["resolver"] or "%s: the --base-uri resolver is given retrieval handlers of the CLI's own (%r) / caching switched off" % (
                        label, sorted(dict(ev_attr(rv, "handlers"))))
            # reports: one per error; diagnostics: one per unreadable/unparsable file
            n_err = sum(n_errors(s) for s in states if loadable(s))
            n_missing = sum(1 for s in states if s == MISSING)
            n_unparsable = sum(1 for s in states if s in (NOTJSON, NOTUTF8, CTRL))
            n_valid = sum(1 for s in states if loadable(s) and n_errors(s) == 0)
            err, so = res["err"], res["out"]
            if output == "plain" and fmt is not None:
                if so != "":
                    out["streams"] = out["streams"] or "%s: plain mode writes %r to stdout" % (label, so[:40])
                if fmt == "\n" and err != "\n" * n_err:
                    out["reports"] = out["reports"] or "%s: %r written to stderr, expected the format once per error" % (label, err[:40])
            elif output == "plain":
                got_err = err.count("<E")
                if err.count("\u2713\u00e9") != n_err and got_err == n_err:
                    out["reports"] = out["reports"] or "%s: the error format's own text (non-ASCII characters) does not come out as given" % label
                if got_err != n_err:
                    out["reports"] = out["reports"] or "%s: %d errors written through the error format, expected %d" % (label, got_err, n_err)
                if so != "":
                    out["streams"] = out["streams"] or "%s: plain mode writes %r to stdout" % (label, so[:40])
                if err.count("does not exist") != n_missing or err.count("Failed to parse") != n_unparsable:
                    out["diagnostics"] = out["diagnostics"] or "%s: %d 'does not exist' and %d 'Failed to parse' diagnostics, expected %d and %d" % (
                        label, err.count("does not exist"), err.count("Failed to parse"), n_missing, n_unparsable)
            else:
                if err.count("===[ValidationError]===") != n_err:
                    out["reports"] = out["reports"] or "%s: %d error blocks on stderr, expected %d" % (label, err.count("===[ValidationError]==="), n_err)
                if so.count("===[SUCCESS]===") != n_valid or "===[" in so.replace("===[SUCCESS]===", ""):
                    out["streams"] = out["streams"] or "%s: %d success headers on stdout, expected %d (and nothing else there)" % (label, so.count("===[SUCCESS]==="), n_valid)
                if "SUCCESS" in err:
                    out["streams"] = out["streams"] or "%s: a success header goes to stderr" % label
                if err.count("===[FileNotFoundError]===") != n_missing or (err.count("===[JSONDecodeError]===") + err.count("===[UnicodeDecodeError]===")) != n_unparsable:
                    out["diagnostics"] = out["diagnostics"] or "%s: diagnostics blocks do not match the %d missing and %d unparsable files" % (label, n_missing, n_unparsable)
        out["_scenarios"] = n_run
    except Undecided as u:
        return None
    except PyRaise as pr:
        out["raises"] = "raises %s (%s)" % (pr.name, pr.msg)
    return out


def ev_attr(o, name):
    return (o.ev or Obj.ev).obj_getattr(o, name)
