"""C05 - every violated keyword is reported, independently of its siblings (partial)."""
import ast

from ..prog import norm, walk_body, AnalysisError
from ..cfg import cfg_of, reaching_defs
from ..calls import calls_of
from ..effects import effects_of
from ..common import dispatcher, calls_at
from ..report import site
from . import c02, c10


def loop_body_nodes(cfg, loop):
    return [n for n in cfg.live if loop in n.loops]


def rule_dispatcher_complete(ctx, rid="R5.1"):
    prog = ctx.prog
    calls = calls_of(prog)
    disp = dispatcher(prog)
    cfg = cfg_of(disp)
    r = ctx.rule(rid, "the dispatcher visits every keyword and yields every error of every keyword function", floor=3)
    sem = c02._valsem(ctx, "dispatch_eval")
    if sem is not None:
        if sem["all-errors"] is None:
            r.ok(site(disp) + " [every keyword]", "each known key is dispatched once, in order, with (validator, value, instance, schema)")
            r.ok(site(disp) + " [every error]", "the very error objects of every keyword function are yielded, in order, none twice")
            r.ok(site(disp) + " [none]", "a keyword function returning None, or no errors, contributes nothing and stops nothing")
        else:
            r.fail("%s|loop-exit:semantic" % disp.qual, site(disp), sem["all-errors"])
        return r
    loop, dnode, dcall = c02.keyword_loop(prog, disp)
    body = loop_body_nodes(cfg, loop)
    # 1. no early exit from the keyword loop
    exits = [n for n in body if n.kind in ("break", "return", "raise")]
    if exits:
        for n in exits:
            r.fail("%s|loop-exit:%s" % (disp.qual, n.text), site(disp, n.ast),
                   "keyword loop can be left early by `%s`: later keywords of the same schema object are not evaluated" % n.text)
    else:
        r.ok(site(disp, loop.ast), "no break/return/raise inside the keyword loop (%d nodes)" % len(body))
    conts = [n for n in body if n.kind == "continue"]
    # continue is accepted only on the lookup-missed edge (checked by R10.2): exactly one expected
    for n in conts:
        preds = [p for (_l, p) in n.pred]
        ok = all(p.kind == "test" and isinstance(p.ast, ast.Compare) and isinstance(p.ast.ops[0], (ast.Is, ast.IsNot)) for p in preds)
        if ok:
            r.ok(site(disp, n.ast), "continue only for keys without a table entry")
        else:
            r.fail("%s|continue:%s" % (disp.qual, norm(preds[0].ast) if preds else "?"), site(disp, n.ast),
                   "keyword skipped under a condition other than `no table entry`: %s" % (preds[0].text if preds else "?"))
    # 2. every error of the callee reaches a yield
    rd = reaching_defs(cfg)
    resvar = None
    if dnode.kind == "stmt" and isinstance(dnode.ast, ast.Assign) and isinstance(dnode.ast.targets[0], ast.Name):
        resvar = dnode.ast.targets[0].id
    inner = None
    for n in body:
        if n.kind == "for" and n is not loop and isinstance(n.ast.iter, ast.Name) and n.ast.iter.id == resvar:
            defs = rd[n.id].get(resvar, ())
            if set(defs) == {dnode.id}:
                inner = n
    yf = [n for n in body if n.kind == "yield" and isinstance(n.ast.value, ast.YieldFrom)]
    if inner is None and not yf:
        if dnode.kind == "for" or (dnode.kind == "yield" and isinstance(dnode.ast.value, ast.YieldFrom)):
            inner = dnode if dnode.kind == "for" else None
        if inner is None and not (dnode.kind == "yield"):
            r.fail("%s|errors-not-consumed" % disp.qual, site(disp, dcall),
                   "the keyword function's result is not iterated by a loop that yields its elements")
            return r
    if inner is not None:
        lv = inner.ast.target.id if isinstance(inner.ast.target, ast.Name) else None
        # from the iter edge, every path back to the inner header passes a `yield <lv>`
        ynodes = [n for n in body if n.kind == "yield" and inner in n.loops and isinstance(n.ast.value, ast.Yield)
                  and isinstance(n.ast.value.value, ast.Name) and n.ast.value.value.id == lv]
        seen = set()
        todo = [x for (l, x) in inner.succ if l == "iter"]
        leak = None
        while todo:
            n = todo.pop()
            if n.id in seen or n in ynodes:
                continue
            seen.add(n.id)
            if n is inner or inner not in n.loops:
                leak = n
                break
            for (l, x) in n.succ:
                if l in ("exc", "close"):
                    continue
                todo.append(x)
        all_y = [n for n in body if n.kind == "yield" and inner in n.loops]
        if ynodes and leak is None and len(all_y) > 1:
            r.fail("%s|error-yielded-twice" % disp.qual, site(disp, all_y[1].ast),
                   "the error loop contains %d yields: an error can be reported more than once" % len(all_y))
        elif ynodes and leak is None:
            r.ok(site(disp, inner.ast), "every element of the keyword function's result reaches `yield %s`, exactly once" % lv)
        else:
            r.fail("%s|error-dropped" % disp.qual, site(disp, inner.ast),
                   "an error produced by a keyword function can be dropped before it is yielded (path reaches %s without a yield)" % (
                       leak.text if leak is not None else "?"))
        exits2 = [n for n in body if inner in n.loops and n.kind in ("break", "return", "raise", "continue")]
        for n in exits2:
            r.fail("%s|inner-exit:%s" % (disp.qual, n.text), site(disp, n.ast), "error loop left/skipped by `%s`" % n.text)
    return r


def rule_keep_going(ctx, rid="R5.2"):
    prog = ctx.prog
    calls = calls_of(prog)
    t = prog.tables
    V = t.validator_cls
    funcs = sorted(set(t.keyword_funcs()) | {V.methods["iter_errors"], V.methods["descend"]}, key=lambda f: f.qual)
    r = ctx.rule(rid, "after yielding an error inside a loop, the only way out of that loop is exhaustion of its iterable", floor=40)
    for f in funcs:
        cfg = cfg_of(f)
        for y in [n for n in cfg.live if n.kind == "yield"]:
            if isinstance(y.ast.value, ast.YieldFrom):
                # `yield from X` forwards every element of X by construction: the implicit loop has no exit but exhaustion
                r.ok("%s yield-from@%s" % (site(f), norm(y.ast.value.value)[:50]), "forwards every element")
            for L in y.loops:
                seen = set()
                todo = [x for (l, x) in y.succ if l == "next"]
                bad = None
                while todo and bad is None:
                    n = todo.pop()
                    if n.id in seen or n is L:
                        continue
                    seen.add(n.id)
                    if n.kind == "raise":
                        bad = n
                        break
                    if L not in n.loops:
                        bad = n
                        break
                    for (l, x) in n.succ:
                        if l in ("exc", "close"):
                            continue
                        if n.kind in ("break", "return") and L not in x.loops and x is not L:
                            bad = n
                            break
                        todo.append(x)
                inst = "%s loop@%s yield@%s" % (site(f), norm(L.ast.iter if L.kind == "for" else L.ast)[:40], norm(y.ast)[:40])
                if bad is None:
                    r.ok(inst, "")
                else:
                    r.fail("%s|exit-after-yield|%s|%s" % (f.qual, norm(L.ast.iter if L.kind == "for" else L.ast)[:50], bad.text),
                           site(f, bad.ast),
                           "after `%s` the loop over %s can be left through `%s`: further violations of the same keyword are not reported" % (
                               norm(y.ast)[:50], norm(L.ast.iter if L.kind == "for" else L.ast)[:50], bad.text))
    return r


PER_ELEMENT = {"required", "properties", "patternProperties", "items", "dependencies", "allOf", "propertyNames", "extends"}
LOOSE_YIELDS = {"additionalProperties": 2, "additionalItems": 1}


def rule_one_per_violation(ctx, rid="R5.5"):
    prog = ctx.prog
    t = prog.tables
    r = ctx.rule(rid, "per-element keywords yield inside their per-element loop (one error per violation)", floor=10)
    done = set()
    for d in t.drafts.values():
        for k, f in sorted(d.table.items()):
            if (f, k) in done:
                continue
            done.add((f, k))
            cfg = cfg_of(f)
            ys = [n for n in cfg.live if n.kind == "yield"]

            def forwards(y):
                # `yield from <iterator>` hands on every error of the iterator: it is a loop in itself
                v = y.ast.value if isinstance(y.ast, ast.Expr) else y.ast
                return isinstance(v, ast.YieldFrom)
            loose = [y for y in ys if not y.loops and not forwards(y)]
            if k in PER_ELEMENT:
                if not ys:
                    r.fail("%s|no-yield" % f.qual, site(f), "keyword %r never yields" % k)
                elif loose:
                    for y in loose:
                        r.fail("%s|loose-yield|%s" % (f.qual, norm(y.ast)[:60]), site(f, y.ast),
                               "keyword %r yields outside its per-element loop: several violations would collapse into one error" % k)
                else:
                    r.ok("%s [%s]" % (site(f), k), "%d yield(s), all inside loops" % len(ys))
            elif k in LOOSE_YIELDS:
                inloop = [y for y in ys if y.loops or forwards(y)]
                if len(loose) <= LOOSE_YIELDS[k] and inloop:
                    r.ok("%s [%s]" % (site(f), k), "%d yield(s) in the per-element form, %d summary form(s)" % (len(inloop), len(loose)))
                else:
                    r.fail("%s|yield-shape" % f.qual, site(f), "keyword %r: %d loose yields (max %d), %d in loops" % (k, len(loose), LOOSE_YIELDS[k], len(inloop)))
    return r


def _param_is_callers_fresh_local(prog, calls, funcs, g, pname, w):
    """Every call of the helper g (from the keyword-level functions) binds the written parameter to a local of the caller that is
    bound once, to a fresh container (`[]`, `{}`, list(), dict(), set(), deque()), and is not one of the caller's own parameters."""
    import ast as _ast
    from ..prog import walk_body as _wb
    if pname is None:
        base = w.node
        while isinstance(base, (_ast.Attribute, _ast.Subscript, _ast.Call)):
            base = base.func if isinstance(base, _ast.Call) else base.value
        pname = base.id if isinstance(base, _ast.Name) else None
    if pname not in g.params:
        return False
    idx = g.params.index(pname)
    sites = 0
    for c in funcs:
        for (_n, call, tg) in calls.calls_in(c):
            if not any(t.kind == "func" and t.func is g for t in tg):
                continue
            sites += 1
            arg = call.args[idx] if idx < len(call.args) else next((k.value for k in call.keywords if k.arg == pname), None)
            if not isinstance(arg, _ast.Name) or arg.id in c.all_params:
                return False
            binds = [n for n in _wb(c) if isinstance(n, _ast.Assign) and any(isinstance(t, _ast.Name) and t.id == arg.id for t in n.targets)]
            stores = [n for n in _wb(c) if isinstance(n, _ast.Name) and n.id == arg.id and isinstance(n.ctx, _ast.Store)]
            if len(binds) != 1 or len(stores) != 1:
                return False
            v = binds[0].value
            fresh = (isinstance(v, (_ast.List, _ast.Dict, _ast.Set)) and not getattr(v, "elts", getattr(v, "keys", []))) or \
                (isinstance(v, _ast.Call) and isinstance(v.func, _ast.Name) and v.func.id in ("list", "dict", "set", "deque") and not v.args and not v.keywords)
            if not fresh:
                return False
    return sites > 0


def rule_no_shared_state(ctx, rid="R5.4"):
    prog = ctx.prog
    calls = calls_of(prog)
    eff = effects_of(prog)
    t = prog.tables
    roots = list(t.keyword_funcs())
    # helpers reachable from keyword functions, not crossing into the validator/resolver/checker classes
    seen = set()
    todo = list(roots)
    while todo:
        f = todo.pop()
        if f in seen:
            continue
        seen.add(f)
        for g in calls.successors(f):
            if g.cls is not None:
                continue
            todo.append(g)
    r = ctx.rule(rid, "keyword functions and their helpers write nothing but locals, fresh objects and the errors they build", floor=40)
    for f in sorted(seen, key=lambda x: x.qual):
        bad = []
        for w, tag in eff.nonlocal_writes(f):
            if tag[0] == "FLD" and tag[1] in ("Error", "ValidationError", "SchemaError"):
                continue
            if tag[0] == "P" and f not in roots and _param_is_callers_fresh_local(prog, calls, seen, f, tag[1] if len(tag) > 1 else None, w):
                continue        # a collector the caller made for this call (`all_errors = []` handed to a private helper)
            bad.append((w, tag))
        if not bad:
            r.ok(site(f), "no shared-state write")
        for w, tag in bad:
            r.fail("%s|write|%s|%s" % (f.qual, w.text, tag[0]), site(f, w.node),
                   "keyword-level code writes non-local state %s: %s (%s)" % (tag, w.text, w.how))
    return r


def run(ctx):
    ctx.explanation = (
        "Structural necessary conditions of `all failures are reported`: R5.1 the dispatcher loop has no early exit and "
        "every element of each keyword function's result reaches a yield; R5.2 in every keyword function no path from a "
        "yield inside a loop leaves that loop except by exhaustion (CFG loop-exit rule); R5.3 (=R10.1) keyword functions "
        "read exactly the sibling names the draft gives them; R5.4 keyword code writes no shared state (effect analysis); "
        "R5.5 per-element keywords yield inside their per-element loop. Not decided: equality of the concrete error multiset.")
    ctx.assume("specification sibling table (DESIGN Appendix B.2)")
    rule_dispatcher_complete(ctx)
    rule_keep_going(ctx)
    c10.rule_read_set(ctx, "R5.3")
    rule_no_shared_state(ctx)
    rule_one_per_violation(ctx)
    # R5.6: a keyword that abandons a sub-validation (not, contains, oneOf, if) must not leave a resolution scope behind for
    # its siblings: push/pop pairing on every exit
    from . import scope
    scope.rule_pairing(ctx, "R5.6")
    # R5.7: the errors of `$ref` do not depend on its siblings: on the $ref-present path nothing else of the object is read (its id included)
    from .c02 import rule_ref_opaque
    rule_ref_opaque(ctx, "R5.7")
    # R5.8: on every row of the applicator tables all sub-validation errors are forwarded once each, one own error per violation
    from .applic import rule_applicators
    rule_applicators(ctx, "R5.8", "errors")
    # R5.9: the errors of a schema object are computed from the object in hand on every call: the validator keeps no table of a
    # schema's keywords from an earlier call (a keyword added or removed since then would be missed or still reported)
    from .c07 import rule_validator_state
    rule_validator_state(ctx, "R5.9")
    # R5.10: a subschema is applied whenever it is present: `false` and `{}` are falsy, so a keyword that tests a subschema for
    # truthiness silently drops the errors of the boolean schema false
    from .c01 import rule_schema_not_a_condition
    rule_schema_not_a_condition(ctx, "R5.10")
    # R5.11: "... with identical messages, instance paths, schema paths and contexts": on the same tables, every forwarded error
    # carries the index / member name of the part and of the subschema that produced it
    rule_applicators(ctx, "R5.11", "paths")
    # R5.12: additionalProperties consults properties and patternProperties as the draft defines it: the leftover members are the
    # complement of the named ones and of those some pattern matches, each pattern a regular expression of its own
    from .c01 import rule_additional_complement
    rule_additional_complement(ctx, "R5.12")
    rule_carriers(ctx)
    # R5.14: the errors reported are those of the keyword / element of *this* round of the loop
    scope.rule_no_deferred_loop_closure(ctx, "R5.14")
    # R5.15: no behaviour changes at a number fixed in the source (sizes, depths, counts, magnitudes are unbounded in the property's domain)
    from . import scope as _scope
    _scope.rule_no_size_thresholds(ctx, 'R5.15', ('validators', '_validators', '_legacy_validators', '_utils'), 'the dispatcher and the keyword functions')
    # R5.16: what an error is stamped with does not depend on which earlier errors the consumer still holds (C05-r8m2: a set of id(error))
    _scope.rule_no_address_keys(ctx, 'R5.16', ('validators', '_validators', '_legacy_validators', '_utils', 'exceptions'), 'the dispatcher, the keyword functions and the error classes')

def rule_carriers(ctx, rid="R5.13"):
    """A keyword reaches every value its draft's type checker puts in the keyword's domain: the package's own draft classes, built
    inside the definitional interpreter with their real tables, are run on Decimal / Fraction numbers and on subclasses of str, list
    and dict (valsem.carriers_eval).  A dispatcher that pre-selects keywords by Python class -- instead of leaving the question to the
    keyword's own is_type gate -- loses their errors."""
    from .valsem import carriers_eval
    prog = ctx.prog
    disp = dispatcher(prog)
    r = ctx.rule(rid, "every keyword is reached by (and answers for) numbers, strings, arrays and objects in whatever Python class the type checker accepts them", floor=1)
    try:
        sem = carriers_eval(prog)
    except RecursionError:
        sem = None
    if sem is None:
        r.ok(site(disp), "NOT DECIDED: the draft classes are outside the evaluated fragment")
        r.note(site(disp), "%s not decided" % rid)
    elif sem.get("carriers", sem.get("raises")) is None and "raises" not in sem:
        r.ok(site(disp), "four draft classes x ~28 (schema, value) pairs with Decimal, Fraction, str/list/dict subclasses: same error counts as for the plain values")
    else:
        r.fail("%s|carriers" % disp.qual, site(disp), sem.get("carriers") or sem.get("raises"))
    return r
