"""C07 - validation is pure and history-independent (partial: structural clauses)."""
import ast

from ..prog import norm, walk_local, walk_body
from ..cfg import cfg_of, reaching_defs, node_exprs, walk_expr
from ..calls import calls_of
from ..effects import effects_of
from ..common import find_method
from ..report import site
from . import scope


def rule_no_input_mutation(ctx, rid="R7.1"):
    prog = ctx.prog
    calls = calls_of(prog)
    eff = effects_of(prog)
    reach = calls.reachable(calls.validation_roots())
    r = ctx.rule(rid, "no validation-reachable function mutates an object reachable from its parameters "
                      "(instance, schema, keyword value, document, store contents)", floor=60)
    # call sites of each function inside the reachable set, to see what is bound to a mutated parameter
    callers = {}
    for f in reach:
        for (_n, call, targets) in calls.calls_in(f):
            for t in targets:
                gs = [t.func] if t.kind in ("func", "class") and t.func is not None else list(t.funcs)
                for g in gs:
                    callers.setdefault(g, []).append((f, call, t.kind == "dynamic"))
    for f in sorted(reach, key=lambda x: x.qual):
        direct = {}
        for w in eff.direct_writes(f):
            for t in w.locs:
                if t[0] == "P":
                    direct.setdefault(t[1], []).append(w)
        if not direct:
            r.ok(site(f), "write set: %s" % (sorted({w.how for w in eff.direct_writes(f)}) or "none"))
            continue
        for p, ws in sorted(direct.items()):
            role = calls.roles(f).get(p, "parameter")
            sites = callers.get(f, [])
            fresh_everywhere = bool(sites) and role not in ("instance", "schema", "value")
            for (cf, call, dyn) in sites:
                a = eff._bind_args(cf, call, f, dyn).get(p)
                if a is None:
                    continue
                if any(tg[0] not in ("F", "EL") for tg in eff.expr_tags(cf, a)):
                    fresh_everywhere = False
            for w in ws:
                if fresh_everywhere:
                    r.ok(site(f, w.node), "mutates parameter %r, but every caller passes a freshly built object" % p)
                else:
                    r.fail("%s|%s|%s" % (f.qual, p, w.text), site(f, w.node),
                           "mutates data reachable from parameter %r (%s): %s [%s]" % (p, role, w.text, w.how),
                           reached_from=", ".join(sorted({cf.qual for (cf, _c, _d) in sites})[:6]) or "validation entry point")
    ctx.extra["validation_reachable_functions"] = sorted(f.qual for f in reach)
    return r


def rule_validator_state(ctx, rid="R7.1b"):
    """The only per-object state that validation may write: the resolver's scope stack (paired), the resolver's
    store (R7.3), the URIDict's inner dict (through the store), and error objects under construction."""
    prog = ctx.prog
    calls = calls_of(prog)
    eff = effects_of(prog)
    reach = calls.reachable(calls.validation_roots())
    r = ctx.rule(rid, "validation writes no field of the validator, checker or type-checker objects", floor=10)
    allowed_fields = {
        ("RefResolver", "_scopes_stack"), ("RefResolver", "store"), ("URIDict", "store"),
    }
    for f in sorted(reach, key=lambda x: x.qual):
        for w, t in eff.nonlocal_writes(f):
            if t[0] != "FLD":
                continue
            typ, attr = t[1], t[2]
            if typ in ("Error", "ValidationError", "SchemaError"):
                r.ok(site(f, w.node), "error bookkeeping: %s" % w.text)
            elif (typ, attr) in allowed_fields:
                r.ok(site(f, w.node), "resolver state (paired / guarded elsewhere): %s" % w.text)
            else:
                r.fail("%s|%s.%s|%s" % (f.qual, typ, attr, w.text), site(f, w.node),
                       "validation-reachable write to %s.%s: %s" % (typ, attr, w.text))
    return r


def store_key_verdict(prog, f, w):
    """The key of the store write `self.store[K] = doc` in resolve_remote must be the very URI the function was asked for:
    its caller looked the store up under that value (`self.store[url]` in resolve_from_url) and will again.
    Returns None if fine, else a description."""
    node = w.node
    tgt = None
    if isinstance(node, ast.Assign) and len(node.targets) == 1 and isinstance(node.targets[0], ast.Subscript):
        tgt = node.targets[0].slice
    elif isinstance(node, ast.Call) and node.args:
        tgt = node.args[0]
    if tgt is None:
        return "key not found in `%s`" % w.text
    if len(f.params) < 2:
        return "resolve_remote has no uri parameter"
    up = f.params[1]
    if not (isinstance(tgt, ast.Name) and tgt.id == up):
        return "the key `%s` is not the requested URI `%s`" % (norm(tgt)[:40], up)
    cfg = cfg_of(f)
    rd = reaching_defs(cfg)
    for n in cfg.live:
        if n.ast is node:
            if set(rd[n.id].get(up, ())) != {cfg.entry.id}:
                return "`%s` is re-bound before it is used as the store key" % up
    return None


def rule_failed_retrieval(ctx, rid="R7.3"):
    prog = ctx.prog
    calls = calls_of(prog)
    eff = effects_of(prog)
    r = ctx.rule(rid, "the store is written only with a successfully retrieved document, never from a handler/finally", floor=1)
    rr = find_method(prog, "validators.RefResolver", "resolve_remote")
    from .c15 import _sem_clauses
    _sem_clauses(ctx, r, rr, ("cached", "wrapped"),
                 {"cached": "what a retrieval returned is what a later look-up of the same URL finds, without another retrieval",
                  "wrapped": "a failed retrieval leaves no entry behind"},
                 {"cached": "store-key", "wrapped": "store-write-in-handler"})
    writers = []
    for f in prog.funcs.values():
        for w in eff.direct_writes(f):
            if any(t[:3] == ("FLD", "RefResolver", "store") for t in w.locs):
                writers.append((f, w))
    for f, w in writers:
        if f.name == "__init__":
            continue
        if f is not rr:
            r.fail("%s|store-write|%s" % (f.qual, w.text), site(f, w.node), "store written outside resolve_remote/__init__: %s" % w.text)
            continue
        cfg = cfg_of(f)
        rd = reaching_defs(cfg)
        nodes = [n for n in cfg.live if n.ast is w.node]
        for n in nodes:
            wheres = [wh for (_t, wh) in n.trys]
            if "handler" in wheres or "finally" in wheres:
                r.fail("%s|store-write-in-%s" % (f.qual, wheres[-1]), site(f, n.ast), "store written inside an exception handler / finally block")
                continue
            kv = store_key_verdict(prog, f, w)
            if kv is not None:
                r.fail("%s|store-key" % f.qual, site(f, n.ast),
                       "%s: the document retrieved for one URI is filed under another, so a later reference to that other URI is served "
                       "this document -- the answer depends on what was retrieved before" % kv)
                continue
            val = w.node.value if isinstance(w.node, ast.Assign) else None
            if not isinstance(val, ast.Name):
                r.fail("%s|store-value:%s" % (f.qual, norm(val)), site(f, n.ast), "stored value is not the retrieved document variable")
                continue
            defs = rd[n.id].get(val.id, frozenset())
            ok = bool(defs)
            for d in defs:
                dn = cfg.nodes[d]
                has_call = dn.kind == "stmt" and isinstance(dn.ast, ast.Assign) and any(
                    isinstance(x, ast.Call) for x in walk_expr(dn.ast.value))
                in_handler = any(wh in ("handler", "finally") for (_t, wh) in dn.trys)
                if not has_call or in_handler:
                    ok = False
            rets = [x for x in cfg.live if x.kind == "return"]
            returned = all(isinstance(x.ast.value, ast.Name) and x.ast.value.id == val.id for x in rets)
            if ok and returned:
                r.ok(site(f, n.ast), "stores %s, every reaching definition is a completed retrieval call; same value is returned" % val.id)
            else:
                r.fail("%s|store-value-prov:%s" % (f.qual, val.id), site(f, n.ast),
                       "stored value %s is not on every path the result of a completed retrieval (or differs from the returned value)" % val.id)
    if not any(f is rr for f, _w in writers):
        r.note(site(rr), "resolve_remote does not write the store at all")
        r.ok(site(rr), "no store write")
    return r


def rule_caches_only_called(ctx, rid="R7.4"):
    prog = ctx.prog
    calls = calls_of(prog)
    r = ctx.rule(rid, "the two caches are only bound in __init__ and only called elsewhere", floor=4)
    for f in prog.funcs.values():
        parents = {}
        for n in walk_body(f):
            for c in ast.iter_child_nodes(n):
                parents[id(c)] = n
        for n in walk_body(f):
            if isinstance(n, ast.Attribute) and n.attr in ("_remote_cache", "_urljoin_cache") and \
                    calls.type_of(f, n.value) == "RefResolver":
                par = parents.get(id(n))
                if isinstance(n.ctx, ast.Store):
                    if f.name == "__init__":
                        r.ok(site(f, n), "bound in __init__: %s" % norm(par)[:70])
                    else:
                        r.fail("%s|rebind:%s" % (f.qual, n.attr), site(f, n), "cache attribute rebound outside __init__")
                elif isinstance(par, ast.Call) and par.func is n:
                    r.ok(site(f, n), "called: %s" % norm(par)[:70])
                else:
                    r.fail("%s|use:%s|%s" % (f.qual, n.attr, norm(par)[:60]), site(f, n),
                           "cache object used other than by calling it: %s" % norm(par)[:80])
    return r


def rule_no_held_iterator(ctx, rid="R7.5"):
    """An error iterator (the generator returned by iter_errors/descend) restores the resolver's scope only when it is exhausted
    or finalised.  A temporary is finalised at once; a generator bound to a local lives as long as the frame -- and a frame is
    kept alive by the traceback of any exception raised from it."""
    prog = ctx.prog
    calls = calls_of(prog)
    V = calls.V
    gens = {V.methods["iter_errors"], V.methods["descend"]}
    r = ctx.rule(rid, "no partially consumed error iterator is kept in a local variable (it would outlive the call through an exception's traceback)", floor=20)
    for f in sorted(prog.funcs.values(), key=lambda x: x.qual):
        if f.mod.name in ("_reflect",):
            continue
        holds = []
        for n in walk_body(f):
            if isinstance(n, ast.Assign) and len(n.targets) == 1 and isinstance(n.targets[0], ast.Name) and isinstance(n.value, ast.Call):
                tg = calls.callee(f, n.value)
                if any(t.kind == "func" and t.func in gens for t in tg) or (isinstance(n.value.func, ast.Attribute) and n.value.func.attr in ("iter_errors", "descend")):
                    holds.append((n.targets[0].id, n))
        uses_gen = any(isinstance(n, ast.Call) and isinstance(n.func, ast.Attribute) and n.func.attr in ("iter_errors", "descend") for n in walk_body(f))
        if not uses_gen:
            continue
        if not holds:
            r.ok(site(f), "error iterators are temporaries (consumed by for/list/next/best_match in the same expression)")
            continue
        for name, node in holds:
            bad = None
            for n in walk_body(f):
                if isinstance(n, ast.Call) and norm(n.func) in ("next",) and n.args and isinstance(n.args[0], ast.Name) and n.args[0].id == name:
                    bad = n
                if isinstance(n, ast.Call) and norm(n.func) in ("any", "all") and n.args and name in {x.id for x in ast.walk(n.args[0]) if isinstance(x, ast.Name)}:
                    bad = n
                if isinstance(n, ast.For) and isinstance(n.iter, ast.Name) and n.iter.id == name:
                    for sub in ast.walk(n):
                        if isinstance(sub, (ast.Break, ast.Return, ast.Raise)):
                            bad = sub
            if bad is None:
                r.ok(site(f, node), "%s is consumed completely" % name)
            else:
                r.fail("%s|held-iterator|%s" % (f.qual, name), site(f, bad),
                       "the error iterator bound to `%s` is consumed only partly (`%s`) while the local keeps it alive: if an exception leaves this frame, "
                       "its traceback holds the suspended generator and the resolution scope it entered is not left" % (name, norm(bad)[:50]))
    return r


def run(ctx):
    ctx.explanation = (
        "Decides the structural clauses of C07 from source: (R7.1) an effect/alias analysis over every "
        "validation-reachable function shows none mutates anything reachable from instance, schema, keyword "
        "values, documents; (R7.1b) no field of validator/checker objects is written during validation; "
        "(R7.2) typestate over the CFG with exception and generator-close edges: every push_scope is undone "
        "on every exit; only push/pop write the stack; (R7.3) the store is written only with a retrieved "
        "document, outside handlers; (R7.4) caches are only called; (R7.6) nothing memoised reads the scope stack. Not decided: prompt finalisation of "
        "abandoned generators by the interpreter, and equality of concrete histories.")
    ctx.assume("CPython finalises an abandoned generator promptly (reference counting), running its finally blocks")
    ctx.assume("functools.lru_cache does not cache exceptions (stdlib)")
    ctx.assume("no re-entrance of a validator while one of its own iterators is suspended (excluded by the property)")
    rule_no_input_mutation(ctx)
    rule_validator_state(ctx)
    scope.rule_pairing(ctx, "R7.2")
    scope.rule_who_writes_stack(ctx, "R7.2w")
    rule_failed_retrieval(ctx)
    rule_caches_only_called(ctx)
    rule_no_held_iterator(ctx)
    scope.rule_memo_scope_free(ctx, "R7.6")
    scope.rule_lazy_inside_scope(ctx, "R7.8")
    scope.rule_no_parked_iterators(ctx, "R7.9")
    scope.rule_scope_entered(ctx, "R7.10")
    # R7.11: a used validator and a fresh one resolve the same reference alike: nothing on the validation path consults the live
    # registry (or a bundled copy) to make up for a failed retrieval -- what a resolver knows is what its store held at construction
    from .c18 import rule_registry_read_only
    rule_registry_read_only(ctx, "R7.11")
    # R7.7: store keys are URIs up to an empty fragment and nothing coarser: a coarser key serves the document retrieved for one
    # URI to a later reference to another (history dependence)
    from .c15 import rule_uridict
    rule_uridict(ctx, "R7.7")
    # R7.11: no behaviour changes at a number fixed in the source (sizes, depths, counts, magnitudes are unbounded in the property's domain)
    from . import scope as _scope
    _scope.rule_no_size_thresholds(ctx, 'R7.11', ('validators', '_utils'), 'the resolver, its store and the dispatcher')
    # R7.14: nothing is remembered under the address of an object of an earlier call
    _scope.rule_no_address_keys(ctx, 'R7.14', ('validators', '_validators', '_legacy_validators', '_utils', '_types', '_format'), 'the dispatcher, the resolver, the keyword functions and the checkers')
    # R7.12: what a resolver is made of is its own and live: the handler table a caller edits is the one retrieval consults (toggling a handler)
    from .c18 import rule_per_validator_resolver
    rule_per_validator_resolver(ctx, "R7.12")
    from . import scope as _sc
    _sc.rule_scope_in_force(ctx, "R7.13")
