"""C13 - built-in format checkers: never raise, decide their grammar (partial)."""
import ast
import re._parser as sre_parse

from ..prog import norm, walk_body, walk_local, AnalysisError, Func
from ..cfg import cfg_of, node_exprs, walk_expr, handler_names
from ..calls import calls_of
from ..formats import format_registry
from ..model import CALLEE_RAISES_ON_STR, ALWAYS_TRUTHY_RESULT, SUPERSET_DELEGATES, PURE_STR_METHODS, covered, base_name
from ..report import site
from .c02 import only_via_edge

PURE_BUILTINS = {"isinstance", "getattr", "bool", "len", "str", "repr", "enumerate", "hasattr", "any", "all", "iter", "next", "list", "tuple"}


def ext_targets(prog, f, call):
    """Dotted names of external callees a call may reach, following module-level aliases with several bindings
    (e.g. _is_date = datetime.date.fromisoformat | def _is_date)."""
    calls = calls_of(prog)
    out = []
    fn = call.func
    if isinstance(fn, ast.Name) and fn.id in f.mod.bindings and fn.id not in f.all_params:
        for (v, _st) in f.mod.bindings[fn.id]:
            if isinstance(v, Func):
                out.append(("func", v))
            elif isinstance(v, (ast.Attribute, ast.Name)):
                r = prog.resolve_expr(f.mod, v)
                if isinstance(r, tuple) and r[0] == "ext":
                    out.append(("ext", r[1]))
                elif isinstance(r, Func):
                    out.append(("func", r))
                else:
                    out.append(("unknown", norm(v)))
            elif isinstance(v, ast.Call):
                # compiled regex etc.
                out.append(("value", norm(v)))
        if out:
            return out
    for t in calls.callee(f, call):
        if t.kind == "ext":
            out.append(("ext", t.name))
        elif t.kind == "func" and t.func is not None:
            out.append(("func", t.func))
        elif t.kind == "builtin":
            out.append(("builtin", t.name))
        elif t.kind == "method":
            out.append(("method", t.name))
        elif t.kind == "class":
            out.append(("class", t.name))
        else:
            out.append(("unknown", t.name or norm(call.func)))
    return out


def effects(prog, f, depth=0, seen=None):
    """(set of exception names that may escape f on an arbitrary str, list of unmodelled delegates, list of modelled delegates)."""
    seen = seen or set()
    if f in seen or depth > 4:
        return set(), [], []
    seen = seen | {f}
    cfg = cfg_of(f)
    esc, unknown, delegates = set(), [], []
    for n in cfg.live:
        local = set()
        for e in node_exprs(n):
            for c in walk_expr(e):
                if not isinstance(c, ast.Call):
                    continue
                for kind, tgt in ext_targets(prog, f, c):
                    if kind == "ext":
                        if tgt in CALLEE_RAISES_ON_STR:
                            local |= set(CALLEE_RAISES_ON_STR[tgt])
                            delegates.append((tgt, c, n))
                        elif tgt.split(".")[-1] in ("islice", "chain"):
                            pass
                        else:
                            unknown.append((tgt, c))
                            local.add("AnyException")
                    elif kind == "func":
                        e2, u2, d2 = effects(prog, tgt, depth + 1, seen)
                        local |= e2
                        unknown += u2
                        delegates += d2
                    elif kind == "builtin":
                        if tgt not in PURE_BUILTINS:
                            unknown.append((tgt, c))
                    elif kind == "method":
                        recv = c.func.value if isinstance(c.func, ast.Attribute) else None
                        if tgt in PURE_STR_METHODS or tgt in ("append", "fullmatch", "match", "search"):
                            pass
                        else:
                            unknown.append(("." + tgt, c))
                    elif kind in ("value",):
                        pass
                    else:
                        unknown.append((str(tgt), c))
        if n.kind == "raise" and isinstance(n.ast, ast.Raise) and n.ast.exc is not None:
            ex = n.ast.exc
            local.add(base_name(norm(ex.func if isinstance(ex, ast.Call) else ex)))
        # handlers inside the function itself
        if local:
            trys = [t for (t, wh) in n.trys if wh == "body"]
            hn = [x for t in trys for h in t.handlers for x in (handler_names(h) or ["BaseException"])]
            local = {x for x in local if not covered(x, hn)}
        esc |= local
    return esc, unknown, delegates


def _full_date_regex(pat, flags_ascii):
    try:
        got = str(sre_parse.parse(pat))
        want = {str(sre_parse.parse(p)) for p in (r"[0-9]{4}-[0-9]{2}-[0-9]{2}", r"[0-9][0-9][0-9][0-9]-[0-9][0-9]-[0-9][0-9]")}
        if flags_ascii:
            want |= {str(sre_parse.parse(r"\d{4}-\d{2}-\d{2}"))}
    except Exception:
        return False
    return got in want


def run(ctx):
    prog = ctx.prog
    calls = calls_of(prog)
    ctx.explanation = (
        "C13 (never-raises half and the structural part of the grammar half): R13.1 the exception effect of each registered, "
        "installed checker on an arbitrary string, computed from a callee exception model of ipaddress/datetime/re/idna, is "
        "contained in its declared `raises` (with the builtin exception hierarchy); R13.2 what a checker returns on the string "
        "path is a verdict (always-truthy delegate object or a boolean); R13.3 a checker that hands the string to a parser "
        "known to accept a superset of the grammar must first check the shape; R13.4 ipv6 rejects zone ids. Not decided: "
        "exactness of the standard library's ipv4/ipv6/date grammars on concrete strings.")
    ctx.assume("callee exception/grammar model in sa/model.py (ipaddress, datetime, re, idna) for the interpreter in use (3.12)")
    entries = format_registry(prog)
    r1 = ctx.rule("R13.1", "each installed checker's `raises` covers everything its delegates can raise on an arbitrary string", floor=6)
    r2 = ctx.rule("R13.2", "the value returned on the string path is a verdict: truthy for every accepted string, or a boolean", floor=6)
    r3 = ctx.rule("R13.3", "no checker hands the string to a parser that accepts a superset of its grammar without checking the shape first", floor=1)
    r4 = ctx.rule("R13.4", "ipv6 rejects zone identifiers", floor=1)
    done = set()
    for e in entries:
        f = e.func
        if not e.present:
            continue
        names = sorted(set(e.names.values()))
        declared = [base_name(x) for x in e.raises_names()]
        esc, unknown, delegates = effects(prog, f)
        where = site(f) + " %s" % names
        key0 = "%s|%s" % (f.qual, ",".join(names))
        if (f, tuple(declared)) not in done:
            for (tgt, c) in unknown:
                r1.fail(key0 + "|unmodelled|%s" % tgt, site(f, c), "delegate %s is not in the callee exception model: cannot bound what it raises" % tgt)
            missing = sorted(x for x in esc if not covered(x, declared))
            if missing:
                for m in missing:
                    src = [d for d in delegates if m in CALLEE_RAISES_ON_STR.get(d[0], [])]
                    r1.fail(key0 + "|uncovered|%s" % m, site(f, src[0][1]) if src else where,
                            "%s can raise %s (from %s) which `raises=%s` does not list: check()/conforms() would let it escape" % (
                                f.name, m, src[0][0] if src else "?", e.raises_names() or "()"))
            elif not unknown:
                r1.ok(where, "may raise %s; declared raises %s" % (sorted(esc) or "nothing", declared or "()"))
        if f in done:
            continue
        done.add(f)
        done.add((f, tuple(declared)))
        # R13.2
        cfg = cfg_of(f)
        p = f.params[0]
        for rn in [n for n in cfg.live if n.kind == "return"]:
            v = rn.ast.value
            if isinstance(v, ast.Constant) and v.value in (True, False):
                r2.ok(site(f, rn.ast), "constant %s" % v.value)
                continue
            kind = None
            if isinstance(v, (ast.Compare, ast.BoolOp)) or (isinstance(v, ast.UnaryOp) and isinstance(v.op, ast.Not)):
                kind = "boolean expression"
            elif isinstance(v, ast.Call):
                tg = ext_targets(prog, f, v)
                if tg and all((k == "ext" and t in ALWAYS_TRUTHY_RESULT) or (k == "func" and t.mod.name == "_format") for k, t in tg):
                    kind = "delegate result, always truthy (%s)" % "; ".join(sorted({ALWAYS_TRUTHY_RESULT.get(t, "package helper") if k == "ext" else "package helper" for k, t in tg}))
                elif norm(v.func) == "bool":
                    kind = "bool(...)"
            if kind:
                r2.ok(site(f, rn.ast), "%s: %s" % (norm(v)[:50], kind))
            else:
                r2.fail("%s|return|%s" % (f.qual, norm(v)[:50]), site(f, rn.ast),
                        "cannot show that `%s` is truthy for every accepted string: check() turns a falsy result into a failure" % norm(v)[:60])
        # R13.3
        for (tgt, c, n) in delegates:
            if tgt not in SUPERSET_DELEGATES:
                continue
            # a dominating shape test on the instance
            tests = []
            for t in cfg.live:
                if t.kind != "test":
                    continue
                e2 = t.ast
                if isinstance(e2, ast.Call) and isinstance(e2.func, ast.Attribute) and e2.func.attr == "fullmatch" and e2.args and norm(e2.args[-1]) == p:
                    pat, ascii_flag = None, False
                    if len(e2.args) == 1:
                        rr = prog.resolve_expr(f.mod, e2.func.value, f)
                        if isinstance(rr, tuple) and rr[0] == "expr" and isinstance(rr[2], ast.Call) and rr[2].args and isinstance(rr[2].args[0], ast.Constant):
                            pat = rr[2].args[0].value
                            ascii_flag = any("ASCII" in norm(a) for a in rr[2].args[1:]) or any("ASCII" in norm(k.value) for k in rr[2].keywords)
                    elif isinstance(e2.args[0], ast.Constant):
                        pat = e2.args[0].value
                        ascii_flag = any("ASCII" in norm(a) for a in e2.args[2:])
                    if pat is not None and _full_date_regex(pat, ascii_flag):
                        tests.append((t, "true"))
            if tests and only_via_edge(cfg, n, tests, True):
                r3.ok(site(f, c), "%s only after a full match of the YYYY-MM-DD shape" % tgt)
            else:
                r3.fail("%s|superset-delegate|%s" % (f.qual, tgt), site(f, c),
                        "%s hands the string straight to %s, which %s" % (f.name, tgt, SUPERSET_DELEGATES[tgt]))
        # R13.4
        if "ipv6" in names:
            rets = [n for n in cfg.live if n.kind == "return" and not (isinstance(n.ast.value, ast.Constant))]
            ok = any("scope_id" in norm(n.ast.value) and norm(n.ast.value).startswith("not ") for n in rets)
            if ok:
                r4.ok(site(f), "verdict is `not <address>.scope_id`")
            else:
                r4.fail("%s|zone-id" % f.qual, site(f), "the ipv6 verdict does not depend on the parsed address having no scope (zone) id")
    return
