"""C13 - built-in format checkers: never raise, decide their grammar (partial)."""
import ast
import re._parser as sre_parse

from ..prog import norm, walk_body, walk_local, AnalysisError, Func
from ..cfg import cfg_of, node_exprs, walk_expr, handler_names, reaching_defs
from ..calls import calls_of
from ..formats import format_registry
from ..model import CALLEE_RAISES_ON_STR, ALWAYS_TRUTHY_RESULT, SUPERSET_DELEGATES, PURE_STR_METHODS, covered, base_name
from ..report import site
from .c02 import only_via_edge

PURE_BUILTINS = {"isinstance", "getattr", "bool", "len", "str", "repr", "enumerate", "hasattr", "any", "all", "iter", "next", "list", "tuple"}


def ext_targets(prog, f, call):
    """Dotted names of external callees a call may reach, following module-level aliases with several bindings
    (e.g. _is_date = datetime.date.fromisoformat | def _is_date)."""
    calls = calls_of(prog)
    out = []
    fn = call.func
    if isinstance(fn, ast.Name) and fn.id in f.mod.bindings and fn.id not in f.all_params:
        for (v, _st) in f.mod.bindings[fn.id]:
            if isinstance(v, Func):
                out.append(("func", v))
            elif isinstance(v, (ast.Attribute, ast.Name)):
                r = prog.resolve_expr(f.mod, v)
                if isinstance(r, tuple) and r[0] == "ext":
                    out.append(("ext", r[1]))
                elif isinstance(r, Func):
                    out.append(("func", r))
                else:
                    out.append(("unknown", norm(v)))
            elif isinstance(v, ast.Call) and norm(v.func) == "getattr" and len(v.args) in (2, 3) and isinstance(v.args[1], ast.Constant) \
                    and isinstance(v.args[1].value, str):
                # _is_date = getattr(datetime.date, "fromisoformat", None): the library function when there is one
                r = prog.resolve_expr(f.mod, v.args[0])
                if isinstance(r, tuple) and r[0] == "ext":
                    out.append(("ext", "%s.%s" % (r[1], v.args[1].value)))
                else:
                    out.append(("unknown", norm(v)))
            elif isinstance(v, ast.Call):
                # compiled regex etc.
                out.append(("value", norm(v)))
        if out:
            return out
    for t in calls.callee(f, call):
        if t.kind == "ext":
            out.append(("ext", t.name))
        elif t.kind == "func" and t.func is not None:
            out.append(("func", t.func))
        elif t.kind == "builtin":
            out.append(("builtin", t.name))
        elif t.kind == "method":
            out.append(("method", t.name))
        elif t.kind == "class":
            out.append(("class", t.name))
        else:
            out.append(("unknown", t.name or norm(call.func)))
    return out


def effects(prog, f, depth=0, seen=None):
    """(set of exception names that may escape f on an arbitrary str, list of unmodelled delegates, list of modelled delegates)."""
    seen = seen or set()
    if f in seen or depth > 4:
        return set(), [], []
    seen = seen | {f}
    cfg = cfg_of(f)
    esc, unknown, delegates = set(), [], []
    for n in cfg.live:
        local = set()
        for e in node_exprs(n):
            for c in walk_expr(e):
                if not isinstance(c, ast.Call):
                    continue
                for kind, tgt in ext_targets(prog, f, c):
                    if kind == "ext" and tgt in ("re.fullmatch", "re.match", "re.search") and c.args:
                        a0 = c.args[0]
                        rr = prog.resolve_expr(f.mod, a0, f) if isinstance(a0, (ast.Name, ast.Attribute)) else None
                        if (isinstance(a0, ast.Constant) and isinstance(a0.value, str)) or \
                                (isinstance(rr, tuple) and rr[0] == "expr" and isinstance(rr[2], ast.Constant) and isinstance(rr[2].value, str)):
                            pass        # a pattern written in the source: compiles (or the module would not import cleanly under its tests)
                        else:
                            local |= {"re.error", "OverflowError", "RecursionError", "ValueError"}
                            delegates.append(("re.compile", c, n))
                    elif kind == "ext":
                        if tgt in CALLEE_RAISES_ON_STR:
                            local |= set(CALLEE_RAISES_ON_STR[tgt])
                            if tgt.startswith("re.") and tgt.split(".")[-1] in ("compile", "search", "match", "fullmatch") and \
                                    (len(c.args) > (1 if tgt == "re.compile" else 2) or any(k.arg == "flags" for k in c.keywords)):
                                # explicit flags can contradict the pattern's own inline flags: "(?a)x" with re.UNICODE -> ValueError
                                local.add("ValueError")
                            delegates.append((tgt, c, n))
                        elif tgt.split(".")[-1] in ("islice", "chain"):
                            pass
                        else:
                            unknown.append((tgt, c))
                            local.add("AnyException")
                    elif kind == "func":
                        e2, u2, d2 = effects(prog, tgt, depth + 1, seen)
                        local |= e2
                        unknown += u2
                        delegates += d2
                    elif kind == "builtin":
                        if tgt not in PURE_BUILTINS:
                            unknown.append((tgt, c))
                    elif kind == "method":
                        recv = c.func.value if isinstance(c.func, ast.Attribute) else None
                        if tgt in PURE_STR_METHODS or tgt in ("append", "fullmatch", "match", "search") or tgt in (
                                # tests on sets of characters and on strings: no exception on str / frozenset operands
                                "issuperset", "issubset", "isdisjoint", "isdecimal", "isnumeric", "isalpha", "isalnum", "isspace", "isupper", "islower",
                                "rfind", "index", "rindex", "removesuffix", "splitlines", "rsplit", "zfill", "swapcase", "capitalize", "isidentifier", "isprintable"):
                            pass
                        else:
                            unknown.append(("." + tgt, c))
                    elif kind in ("value",):
                        pass
                    else:
                        unknown.append((str(tgt), c))
        if n.kind == "raise" and isinstance(n.ast, ast.Raise) and n.ast.exc is not None:
            ex = n.ast.exc
            local.add(base_name(norm(ex.func if isinstance(ex, ast.Call) else ex)))
        # handlers inside the function itself
        if local:
            trys = [t for (t, wh) in n.trys if wh == "body"]
            hn = [x for t in trys for h in t.handlers for x in (handler_names(h) or ["BaseException"])]
            local = {x for x in local if not covered(x, hn)}
        esc |= local
    return esc, unknown, delegates


def regex_test(prog, f, e2, p):
    """(pattern, mode, ascii_flag) if e2 is a regex test on parameter p: <compiled>.fullmatch/match/search(p) with the compiled
    pattern a module-level re.compile(<constant>[, flags]), or re.fullmatch/match/search(<constant or module constant>, p[, flags])."""
    if not (isinstance(e2, ast.Call) and isinstance(e2.func, ast.Attribute) and e2.func.attr in ("fullmatch", "match", "search") and e2.args):
        return None

    def const_str(x):
        if isinstance(x, ast.Constant) and isinstance(x.value, str):
            return x.value
        if isinstance(x, (ast.Name, ast.Attribute)):
            rr = prog.resolve_expr(f.mod, x, f)
            if isinstance(rr, tuple) and rr[0] == "expr" and isinstance(rr[2], ast.Constant) and isinstance(rr[2].value, str):
                return rr[2].value
        return None
    is_re_module = norm(e2.func.value) == "re"
    if is_re_module:
        if len(e2.args) < 2 or norm(e2.args[1]) != p:
            return None
        pat = const_str(e2.args[0])
        flags = list(e2.args[2:]) + [k.value for k in e2.keywords if k.arg == "flags"]
    else:
        if norm(e2.args[0]) != p:
            return None
        rr = prog.resolve_expr(f.mod, e2.func.value, f)
        if not (isinstance(rr, tuple) and rr[0] == "expr" and isinstance(rr[2], ast.Call) and norm(rr[2].func).endswith("compile") and rr[2].args):
            return None
        pat = const_str(rr[2].args[0]) if not isinstance(rr[2].args[0], ast.Constant) else rr[2].args[0].value
        flags = list(rr[2].args[1:]) + [k.value for k in rr[2].keywords if k.arg == "flags"]
    if not isinstance(pat, str):
        return None
    txt = " ".join(norm(x) for x in flags)
    if flags and not all(tok.strip().split(".")[-1] in ("ASCII", "A", "UNICODE", "U") for tok in txt.replace("|", " ").split()):
        return None
    return pat, e2.func.attr, ("ASCII" in txt or ".A" in txt.replace("re.ASCII", ""))


def _full_date_test(pat, mode, ascii_flag):
    """Does re.<mode>(pat, s) succeed exactly on the strings of the shape [0-9]{4}-[0-9]{2}-[0-9]{2}?  Decided on the automata."""
    from .. import relang
    try:
        g = relang.build(relang.FULL_DATE_SHAPE, "fullmatch")
        t = relang.build(pat, mode, ascii_flag)
        sig = relang.alphabet(relang.FULL_DATE_SHAPE, pat)
        return relang.intersect_witness(g, t, sig, b_complement=True) is None and relang.intersect_witness(t, g, sig, b_complement=True) is None
    except relang.Unsupported:
        return _full_date_regex(pat, ascii_flag) if mode == "fullmatch" else False


def _full_date_regex(pat, flags_ascii):
    try:
        got = str(sre_parse.parse(pat))
        want = {str(sre_parse.parse(p)) for p in (r"[0-9]{4}-[0-9]{2}-[0-9]{2}", r"[0-9][0-9][0-9][0-9]-[0-9][0-9]-[0-9][0-9]")}
        if flags_ascii:
            want |= {str(sre_parse.parse(r"\d{4}-\d{2}-\d{2}"))}
    except Exception:
        return False
    return got in want


# ---------------------------------------------------------------------------------------------------------------- R13.5
# email = "the strings containing an @".  The verdict expression is evaluated over the three position classes of the
# first "@": absent / at index 0 / at index >= 1.  Numbers are intervals (lo, hi) with hi None = unbounded.
_AT_CASES = ("absent", "first", "later")


def _at_value(e, p, case, local, depth=0):
    """-> ("bool", True|False|None) | ("int", lo, hi) | None (outside the fragment)."""
    if depth > 6:
        return None
    if isinstance(e, ast.Name) and e.id in local and len(local[e.id]) == 1:
        return _at_value(local[e.id][0], p, case, local, depth + 1)
    if isinstance(e, ast.Constant) and isinstance(e.value, bool):
        return ("bool", e.value)
    if isinstance(e, ast.Constant) and isinstance(e.value, int):
        return ("int", e.value, e.value)
    if isinstance(e, ast.UnaryOp) and isinstance(e.op, ast.USub) and isinstance(e.operand, ast.Constant) and isinstance(e.operand.value, int):
        return ("int", -e.operand.value, -e.operand.value)
    if isinstance(e, ast.UnaryOp) and isinstance(e.op, ast.Not):
        v = _at_truth(e.operand, p, case, local, depth + 1)
        return ("bool", None if v is None else not v)
    if isinstance(e, ast.BoolOp):
        vs = [_at_truth(x, p, case, local, depth + 1) for x in e.values]
        if isinstance(e.op, ast.And):
            return ("bool", False if any(v is False for v in vs) else (True if all(v is True for v in vs) else None))
        return ("bool", True if any(v is True for v in vs) else (False if all(v is False for v in vs) else None))
    is_at = lambda x: isinstance(x, ast.Constant) and x.value == "@"
    is_p = lambda x: isinstance(x, ast.Name) and x.id == p
    if isinstance(e, ast.Compare) and len(e.ops) == 1:
        op, l, r = e.ops[0], e.left, e.comparators[0]
        if isinstance(op, (ast.In, ast.NotIn)) and is_at(l) and is_p(r):
            v = case != "absent"
            return ("bool", v if isinstance(op, ast.In) else not v)
        a, b = _at_value(l, p, case, local, depth + 1), _at_value(r, p, case, local, depth + 1)
        if a and b and a[0] == "int" and b[0] == "int":
            (alo, ahi), (blo, bhi) = a[1:], b[1:]
            inf = float("inf")
            ahi = inf if ahi is None else ahi
            bhi = inf if bhi is None else bhi
            def tri(always, never):
                return ("bool", True if always else (False if never else None))
            if isinstance(op, ast.Gt):
                return tri(alo > bhi, ahi <= blo)
            if isinstance(op, ast.GtE):
                return tri(alo >= bhi, ahi < blo)
            if isinstance(op, ast.Lt):
                return tri(ahi < blo, alo >= bhi)
            if isinstance(op, ast.LtE):
                return tri(ahi <= blo, alo > bhi)
            if isinstance(op, ast.Eq):
                return tri(alo == ahi == blo == bhi, ahi < blo or alo > bhi)
            if isinstance(op, ast.NotEq):
                return tri(ahi < blo or alo > bhi, alo == ahi == blo == bhi)
        return None
    if isinstance(e, ast.Call) and isinstance(e.func, ast.Attribute) and is_p(e.func.value) and len(e.args) == 1 and is_at(e.args[0]) and not e.keywords:
        m = e.func.attr
        table = {
            "find": {"absent": (-1, -1), "first": (0, 0), "later": (1, None)},
            "rfind": {"absent": (-1, -1), "first": (0, None), "later": (1, None)},
            "count": {"absent": (0, 0), "first": (1, None), "later": (1, None)},
        }
        if m in table:
            return ("int",) + table[m][case]
        if m == "startswith":
            return ("bool", case == "first")
        return None
    if isinstance(e, ast.Call) and isinstance(e.func, ast.Name) and e.func.id == "bool" and len(e.args) == 1:
        return ("bool", _at_truth(e.args[0], p, case, local, depth + 1))
    if isinstance(e, ast.Call) and isinstance(e.func, ast.Name) and e.func.id == "len" and len(e.args) == 1:
        a = e.args[0]
        if isinstance(a, ast.Call) and isinstance(a.func, ast.Attribute) and a.func.attr == "split" and is_p(a.func.value) and len(a.args) == 1 and is_at(a.args[0]):
            return ("int", 1, 1) if case == "absent" else ("int", 2, None)
    return None


def _at_truth(e, p, case, local, depth=0):
    v = _at_value(e, p, case, local, depth)
    if v is None:
        return None
    if v[0] == "bool":
        return v[1]
    lo, hi = v[1], v[2]
    if lo == hi == 0:
        return False
    if (lo is not None and lo > 0) or (hi is not None and hi < 0):
        return True
    return None


def rule_email(ctx, entries, rid="R13.5"):
    r = ctx.rule(rid, "email accepts exactly the strings containing an @, wherever the first @ stands (absent / index 0 / later)", floor=1)
    seen = set()
    for e in entries:
        if not e.present or e.func in seen or not any(n in ("email", "idn-email") for n in e.names.values()):
            continue
        f = e.func
        seen.add(f)
        p = f.params[0]
        cfg = cfg_of(f)
        local = {}
        for n in walk_body(f):
            if isinstance(n, ast.Assign) and len(n.targets) == 1 and isinstance(n.targets[0], ast.Name):
                local.setdefault(n.targets[0].id, []).append(n.value)
        rets = [n for n in cfg.live if n.kind == "return" and not isinstance(n.ast.value, ast.Constant)]
        if not rets:
            r.fail("%s|constant-verdict" % f.qual, site(f), "the email verdict on strings is a constant")
            continue
        for rn in rets:
            got = {c: _at_truth(rn.ast.value, p, c, local) for c in _AT_CASES}
            want = {"absent": False, "first": True, "later": True}
            wrong = [c for c in _AT_CASES if got[c] is not None and got[c] != want[c]]
            if wrong:
                r.fail("%s|at-position|%s" % (f.qual, ",".join(wrong)), site(f, rn.ast),
                       "`%s` gives %s for a string whose first @ is %s: email is \"the strings containing an @\"" % (
                           norm(rn.ast.value)[:60], got[wrong[0]], {"absent": "absent", "first": "at index 0", "later": "after index 0"}[wrong[0]]))
            elif any(got[c] is None for c in _AT_CASES):
                r.ok(site(f, rn.ast), "NOT DECIDED: `%s` is outside the comparison fragment" % norm(rn.ast.value)[:50])
                r.note(site(f, rn.ast), "email verdict `%s` not decided (outside the find/count/in fragment)" % norm(rn.ast.value)[:60])
            else:
                r.ok(site(f, rn.ast), "`%s`: absent -> False, index 0 -> True, later -> True" % norm(rn.ast.value)[:50])
    return r


def _ipv6_eval(prog, f, declared):
    """is_ipv6 evaluated by sa/tokeval.py with the standard library's own ipaddress module on a table of forms: '' if it
    agrees (accepting = truthy result; rejecting = falsy result or one of the declared exceptions), else the difference; None if
    outside the fragment."""
    from ..tokeval import Ev, Undecided, PyRaise
    accept = ["::", "::1", "1::", "2001:db8::8a2e:370:7334", "2001:0db8:85a3:0000:0000:8a2e:0370:7334", "::ffff:192.0.2.1", "fe80::1", "1:2:3:4:5:6:7:8",
              "::2:3:4:5:6:7:8", "1:2:3:4:5:6:7::", "1::8", "1:2:3:4:5:6:1.2.3.4", "::1.2.3.4", "FE80::1", "::FFFF:192.168.0.1", "a:B:c:D:e:F:0:1", "1:2:3:4::6:7:8"]
    reject = ["fe80::1%eth0", "fe80::1%1", "::1%", "2001:db8::/32", "1.2.3.4", "12345::", ":::", "", "::g", "1:2:3:4:5:6:7:8:9", " ::1",
              "1:2:3:4:5:6:7:8::", "::1\n", "1:2:3:4:5:6:7", "1:2:3:4:5:6:7:", "::1 ", "1::2::3", "::1.2.3", "::256.1.1.1", "[::1]",
              # strings that only *become* addresses under a case mapping or a compatibility normalisation (U+FB00 upper-cases to "FF")
              "::\ufb00", "\ufb00::1", "1:2:3:4:5:6:7:\ufb00", "\uff11::", "::\uff11", "\uff1a:1", "::1\u200b", "\ufeff::1"]
    try:
        for sv, want in [(x, True) for x in accept] + [(x, False) for x in reject]:
            try:
                res = Ev(prog, fuel=4000).call_func(f, [sv], {})
                got = bool(res)
            except PyRaise as pr:
                if not covered(pr.name, declared) and pr.name not in ("AddressValueError",):
                    return "is_ipv6(%r) raises %s, which its `raises` does not list" % (sv, pr.name)
                got = False
            if got != want:
                return "is_ipv6(%r) %s it; the format %s it (no zone id, no prefix length)" % (sv, "accepts" if got else "rejects", "accepts" if want else "rejects")
    except Undecided:
        return None
    return ""


FORMAT_TABLES = {
    # format: (strings of the grammar, near-misses outside it)
    "ipv4": (["0.0.0.0", "255.255.255.255", "1.2.3.4", "10.0.0.1", "192.168.1.100", "9.99.199.249"],
             ["256.0.0.1", "1.2.3", "1.2.3.4.5", "01.2.3.4", "1.2.3.04", "1.2.3.4\n", "\n1.2.3.4", " 1.2.3.4", "1.2.3.4 ", "1..3.4", "1.2.3.-4", "\u0661.2.3.4", "1.2.3.4/24",
              "0x1.2.3.4", "1.2.3.", "", "1.2.3.4\r", "1.2.3.4\x00", "1.2.3.256", "1.2.3.4.", "1,2,3,4", "1.2.3.4\n\n"]),
    "date": (["2020-02-29", "1999-12-31", "0001-01-01", "9999-12-31", "2000-02-29"] + ["2020-01-%02d" % d for d in range(1, 32)] + ["2021-%02d-15" % m for m in range(1, 13)]
             + ["2021-%02d-30" % m for m in (1, 3, 4, 5, 6, 7, 8, 9, 10, 11, 12)] + ["1900-01-01", "2400-02-29", "0999-10-20"],
             ["2020-02-30", "2019-02-29", "20200101", "2020-W01-1", "2020-1-01", "2020-01-01\n", "2020-01-01T00:00:00", " 2020-01-01", "\uff12020-01-01", "2020-13-01", "",
              "2020-00-10", "2020-01-32", "1900-02-29", "2020-01-01 ", "2020/01/01", "+2020-01-01", "2020-001", "\u0662\u0660\u0662\u0660-01-01"]),
    "email": (["a@b", "@", "a@b@c", " @ ", "x@\n", "joe\nbloggs@example.com", "\n@", "a\r\n@b", "\u2028@x", "\x00@", "a" * 300 + "@b"], ["", "ab", "a.b", "\uff20", "\n", "a\nb"]),
}


def _format_table_eval(prog, f, fmt, declared):
    """a built-in checker evaluated by sa/tokeval.py (the standard library's own ipaddress / datetime do the parsing) on the format's
    table of accepted strings and near-misses: '' | difference | None"""
    from ..tokeval import Ev, Undecided, PyRaise
    accept, reject = FORMAT_TABLES[fmt]
    try:
        for sv, want in [(x, True) for x in accept] + [(x, False) for x in reject]:
            try:
                res = Ev(prog, fuel=6000).call_func(f, [sv], {})
                got = bool(res)
            except PyRaise as pr:
                if not covered(pr.name, declared) and pr.name not in ("AddressValueError",):
                    return "%s(%r) raises %s, which its `raises` does not list" % (f.name, sv, pr.name)
                got = False
            if got != want:
                return "%s(%r) %s it; the %s grammar %s it" % (f.name, sv, "accepts" if got else "rejects", fmt, "contains" if want else "does not contain")
    except Undecided:
        return None
    return ""


def rule_prefilters(ctx, entries, rid="R13.6"):
    """A regex test inside a checker that leads straight to `return False` removes strings from what the checker accepts.  With
    the format's grammar as a regular language (ipv4: four octets 0-255 without leading zeros; date: the YYYY-MM-DD shape every
    real date has), decide on the automata built from the two regex syntax trees (sa/relang.py) whether the removed set meets
    the grammar: reject-on-match needs grammar & filter = {}, reject-on-no-match needs grammar - filter = {}."""
    from .. import relang
    prog = ctx.prog
    r = ctx.rule(rid, "no regex pre-filter of a built-in checker rejects a string of the format's grammar (decided on the regex automata)", floor=1)
    grammars = {"ipv4": relang.IPV4, "ip-address": relang.IPV4, "date": relang.FULL_DATE_SHAPE}
    seen = set()
    for e in entries:
        f = e.func
        names = sorted(set(e.names.values()) & set(grammars))
        if not e.present or f in seen or not names:
            continue
        seen.add(f)
        gpat = grammars[names[0]]
        p = f.params[0]
        cfg = cfg_of(f)
        n_tests = 0
        for t in cfg.live:
            if t.kind != "test":
                continue
            e2, flip = t.ast, False
            while isinstance(e2, ast.UnaryOp) and isinstance(e2.op, ast.Not):
                e2, flip = e2.operand, not flip
            if isinstance(e2, ast.Compare) and len(e2.ops) == 1 and isinstance(e2.ops[0], (ast.Is, ast.IsNot)) and isinstance(e2.comparators[0], ast.Constant) \
                    and e2.comparators[0].value is None:
                flip = flip != isinstance(e2.ops[0], ast.Is)
                e2 = e2.left
            rt = regex_test(prog, f, e2, p)
            if rt is None:
                continue
            pat, mode_, ascii_flag = rt
            # which outcome leads straight to `return False`?
            rej = []
            for (lab, y) in t.succ:
                if lab in ("true", "false") and y.kind == "return" and isinstance(y.ast.value, ast.Constant) and y.ast.value.value is False:
                    rej.append((lab == "true") != flip)      # True: rejected when the regex matched
            for on_match in rej:
                n_tests += 1
                where = site(f, t.ast)
                try:
                    g = relang.build(gpat, "fullmatch")
                    flt = relang.build(pat, mode_, ascii_flag)
                    w = relang.intersect_witness(g, flt, relang.alphabet(gpat, pat), b_complement=not on_match)
                except relang.Unsupported as u:
                    r.ok(where, "NOT DECIDED: %s" % u)
                    r.note(where, "pre-filter %r of %s not decided: %s" % (pat, f.qual, u))
                    continue
                if w is None:
                    r.ok(where, "%s(%r) %s: disjoint from the %s grammar's complement side" % (mode_, pat, "rejects on match" if on_match else "rejects on no match", names[0]))
                else:
                    r.fail("%s|prefilter-rejects-grammar|%s" % (f.qual, pat[:30]), where,
                           "`%s` %s and then returns False; the %s string %r is rejected by it" % (
                               norm(t.ast)[:60], "matches" if on_match else "does not match", names[0], relang.show(w)))
        if n_tests == 0:
            r.ok(site(f), "no regex pre-filter rejects on its own")
    return r


def run(ctx):
    prog = ctx.prog
    calls = calls_of(prog)
    ctx.explanation = (
        "C13 (never-raises half and the structural part of the grammar half): R13.1 the exception effect of each registered, "
        "installed checker on an arbitrary string, computed from a callee exception model of ipaddress/datetime/re/idna, is "
        "contained in its declared `raises` (with the builtin exception hierarchy); R13.2 what a checker returns on the string "
        "path is a verdict (always-truthy delegate object or a boolean); R13.3 a checker that hands the string to a parser "
        "known to accept a superset of the grammar must first check the shape; R13.4 ipv6 rejects zone ids; R13.5 the email verdict evaluated over the three positions of the first @. Not decided: "
        "exactness of the standard library's ipv4/ipv6/date grammars on concrete strings.")
    ctx.assume("callee exception/grammar model in sa/model.py (ipaddress, datetime, re, idna) for the interpreter in use (3.12)")
    entries = format_registry(prog)
    r1 = ctx.rule("R13.1", "each installed checker's `raises` covers everything its delegates can raise on an arbitrary string", floor=6)
    r2 = ctx.rule("R13.2", "the value returned on the string path is a verdict: truthy for every accepted string, or a boolean", floor=6)
    r3 = ctx.rule("R13.3", "no checker hands the string to a parser that accepts a superset of its grammar without checking the shape first", floor=1)
    r4 = ctx.rule("R13.4", "ipv6 rejects zone identifiers", floor=1)
    rule_email(ctx, entries)
    rule_prefilters(ctx, entries)
    done = set()
    all_names = {}
    for e in entries:
        if e.present:
            all_names.setdefault(e.func, set()).update(v for v in e.names.values() if v)
    for e in entries:
        f = e.func
        if not e.present:
            continue
        names = sorted(set(e.names.values()))
        declared = [base_name(x) for x in e.raises_names()]
        esc, unknown, delegates = effects(prog, f)
        where = site(f) + " %s" % names
        key0 = "%s|%s" % (f.qual, ",".join(names))
        if (f, tuple(declared)) not in done:
            for (tgt, c) in unknown:
                r1.fail(key0 + "|unmodelled|%s" % tgt, site(f, c), "delegate %s is not in the callee exception model: cannot bound what it raises" % tgt)
            missing = sorted(x for x in esc if not covered(x, declared))
            if missing:
                for m in missing:
                    src = [d for d in delegates if m in CALLEE_RAISES_ON_STR.get(d[0], [])]
                    r1.fail(key0 + "|uncovered|%s" % m, site(f, src[0][1]) if src else where,
                            "%s can raise %s (from %s) which `raises=%s` does not list: check()/conforms() would let it escape" % (
                                f.name, m, src[0][0] if src else "?", e.raises_names() or "()"))
            elif not unknown:
                r1.ok(where, "may raise %s; declared raises %s" % (sorted(esc) or "nothing", declared or "()"))
        if f in done:
            continue
        done.add(f)
        done.add((f, tuple(declared)))
        # R13.2
        cfg = cfg_of(f)
        p = f.params[0]
        for rn in [n for n in cfg.live if n.kind == "return"]:
            v = rn.ast.value
            if isinstance(v, ast.Constant) and v.value in (True, False):
                r2.ok(site(f, rn.ast), "constant %s" % v.value)
                continue
            rd13 = reaching_defs(cfg)

            def verdict_kind(v, at=None, depth=0):
                if isinstance(v, ast.Constant) and v.value in (True, False):
                    return "constant"
                if isinstance(v, ast.Name) and at is not None and depth < 3:
                    # a single-exit temporary: every definition that reaches the return must be a verdict
                    defs = [cfg.nodes[d] for d in rd13[at.id].get(v.id, ())]
                    kinds = []
                    for dn in defs:
                        if dn.kind == "stmt" and isinstance(dn.ast, ast.Assign) and len(dn.ast.targets) == 1:
                            kinds.append(verdict_kind(dn.ast.value, dn, depth + 1))
                        else:
                            kinds.append(None)
                    return " / ".join(sorted(set(kinds))) if kinds and all(kinds) else None
                if isinstance(v, (ast.Compare, ast.BoolOp)) or (isinstance(v, ast.UnaryOp) and isinstance(v.op, ast.Not)):
                    return "boolean expression"
                if isinstance(v, ast.IfExp):
                    a, b = verdict_kind(v.body, at, depth + 1), verdict_kind(v.orelse, at, depth + 1)
                    return "%s / %s" % (a, b) if a and b else None
                if isinstance(v, ast.Call):
                    tg = ext_targets(prog, f, v)
                    if tg and all((k == "ext" and t in ALWAYS_TRUTHY_RESULT) or (k == "func" and t.mod.name == "_format") for k, t in tg):
                        return "delegate result, always truthy (%s)" % "; ".join(sorted({ALWAYS_TRUTHY_RESULT.get(t, "package helper") if k == "ext" else "package helper" for k, t in tg}))
                    if norm(v.func) == "bool":
                        return "bool(...)"
                return None
            kind = verdict_kind(v, rn)
            if kind:
                r2.ok(site(f, rn.ast), "%s: %s" % (norm(v)[:50], kind))
            else:
                r2.fail("%s|return|%s" % (f.qual, norm(v)[:50]), site(f, rn.ast),
                        "cannot show that `%s` is truthy for every accepted string: check() turns a falsy result into a failure" % norm(v)[:60])
        # R13.3
        for (tgt, c, n) in delegates:
            if tgt == "re.compile" and "regex" in names and (len(c.args) > 1 or c.keywords):
                # "regex: the strings the engine can compile" is about re.compile(<string>): explicit flags change the language
                # ("(?a)\\w" compiles, re.compile("(?a)\\w", re.UNICODE) does not)
                r3.fail("%s|subset-delegate|re.compile-flags" % f.qual, site(f, c),
                        "`%s` compiles the string under explicit flags: patterns whose own inline flags contradict them are refused although the engine compiles them" % norm(c)[:60])
                continue
            if tgt not in SUPERSET_DELEGATES:
                continue
            # a dominating shape test on the instance
            tests = []
            for t in cfg.live:
                if t.kind != "test":
                    continue
                e2 = t.ast
                rt = regex_test(prog, f, e2, p)
                if rt is not None:
                    if _full_date_test(*rt):
                        tests.append((t, "true"))
            def shape_expr(e2, depth=0):
                """e2 is true only if the instance fully matched the date shape: <regex>.fullmatch(instance) itself, a local
                bound once to it, or `<that> is not None`."""
                if depth > 3:
                    return False
                if isinstance(e2, ast.Compare) and len(e2.ops) == 1 and isinstance(e2.ops[0], ast.IsNot) and isinstance(e2.comparators[0], ast.Constant) \
                        and e2.comparators[0].value is None:
                    return shape_expr(e2.left, depth + 1)
                if isinstance(e2, ast.Name):
                    defs = [x.value for x in walk_body(f) if isinstance(x, ast.Assign) and any(isinstance(t2, ast.Name) and t2.id == e2.id for t2 in x.targets)]
                    return len(defs) == 1 and shape_expr(defs[0], depth + 1)
                rt = regex_test(prog, f, e2, p)
                if rt is not None:
                    return _full_date_test(*rt)
                return False
            tests += [(t, "true") for t in cfg.live if t.kind == "test" and shape_expr(t.ast) and not any(t is t0 for (t0, _l) in tests)]
            tests += [(t, "false") for t in cfg.live if t.kind == "test" and isinstance(t.ast, ast.Compare) and len(t.ast.ops) == 1 and isinstance(t.ast.ops[0], ast.Is)
                      and isinstance(t.ast.comparators[0], ast.Constant) and t.ast.comparators[0].value is None and shape_expr(t.ast.left)]
            # the delegate call may also be guarded inside its own expression: `<shape> and delegate(x)` / `delegate(x) if <shape> else ...`
            inline = False
            for x in walk_body(f):
                if isinstance(x, ast.BoolOp) and isinstance(x.op, ast.And):
                    for i, v2 in enumerate(x.values):
                        if any(y is c for y in ast.walk(v2)) and any(shape_expr(u) for u in x.values[:i]):
                            inline = True
                if isinstance(x, ast.IfExp) and any(y is c for y in ast.walk(x.body)) and shape_expr(x.test):
                    inline = True
            if inline or (tests and only_via_edge(cfg, n, tests, True)):
                r3.ok(site(f, c), "%s only after a full match of the YYYY-MM-DD shape" % tgt)
            elif "date" in all_names.get(f, ()) and "date" in FORMAT_TABLES and _format_table_eval(prog, f, "date", declared) == "":
                # the shape is checked in a way this rule does not read (a helper predicate on the characters): the table of the date
                # grammar and its near-misses -- the other ISO 8601 spellings fromisoformat accepts among them -- decides
                r3.ok(site(f, c), "decided on the table only: %d dates accepted, %d near-misses (20200101, 2020-W01-1, 2020-001, non-ASCII digits, ...) rejected "
                      "before %s could accept them" % (len(FORMAT_TABLES["date"][0]), len(FORMAT_TABLES["date"][1]), tgt))
            else:
                r3.fail("%s|superset-delegate|%s" % (f.qual, tgt), site(f, c),
                        "%s hands the string straight to %s, which %s" % (f.name, tgt, SUPERSET_DELEGATES[tgt]))
        # R13.8: tables of near-misses for the formats with a crisp grammar
        names = sorted(all_names.get(f, set(names)))      # one function may be registered under several names (email, idn-email)
        for fmt in sorted(set(names) & set(FORMAT_TABLES)) + (["ipv4"] if "ip-address" in names and "ipv4" not in names else []):
            r8 = next((x for x in ctx.rules if x.id == "R13.8"), None) or ctx.rule(
                "R13.8", "on a table of the grammar's strings and their near-misses (one character added, dropped or replaced, trailing newline, non-ASCII digits) "
                         "each crisp built-in format accepts exactly the grammar", floor=1)
            semt = _format_table_eval(prog, f, fmt, declared)
            if semt is None:
                r8.ok(site(f) + " [%s]" % fmt, "NOT DECIDED: outside the evaluated fragment")
            elif semt == "":
                r8.ok(site(f) + " [%s]" % fmt, "%d strings accepted, %d near-misses rejected" % (len(FORMAT_TABLES[fmt][0]), len(FORMAT_TABLES[fmt][1])))
            else:
                r8.fail("%s|table|%s" % (f.qual, fmt), site(f), semt)
        # R13.4
        if "ipv6" in names:
            sem = _ipv6_eval(prog, f, declared)
            if sem is None:
                rets = [n for n in cfg.live if n.kind == "return" and not (isinstance(n.ast.value, ast.Constant))]
                ok = any("scope_id" in norm(n.ast.value) and norm(n.ast.value).startswith("not ") for n in rets)
                sem = "" if ok else "the ipv6 verdict does not depend on the parsed address having no scope (zone) id"
            if sem == "":
                r4.ok(site(f), "plain and compressed forms and an embedded IPv4 tail pass; a zone id or prefix length does not (evaluated on 14 strings)")
            else:
                r4.fail("%s|zone-id" % f.qual, site(f), sem)
    # R13.7: "for each format registered in FormatChecker.checkers ... and for the draft-specific checker objects": a checker built for
    # a subset of formats (any iterable of names, walked once) really has the built-in functions for those names
    from .c12 import rule_single_pass
    rule_single_pass(ctx, "R13.7")
    # (no size-threshold rule here: a format's grammar may itself fix lengths and counts -- 253 octets of a host name, 8 groups of an
    # IPv6 address; the tables of R13.8 decide those)
    return
