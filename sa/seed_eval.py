#!/venv/bin/python
"""Evaluate an independently seeded mutant: seed_eval.py <mutant dir with patch.diff, demo.py> [--no-tests]

Uses a scratch git worktree of /repo (created under $TMPDIR and removed afterwards):
  1. demo on the clean tree must PASS;  2. patch applies;  3. demo must FAIL;  4. the repository's test-suite must pass;
  5. all 20 quick checks are run on the patched tree; prints which report a violation.
Nothing is ever applied to /repo itself.
"""
import json
import os
import subprocess
import sys
import tempfile

HERE = os.path.dirname(os.path.abspath(__file__))
VERIF = os.path.dirname(HERE)


def sh(cmd, cwd=None, env=None, timeout=900):
    p = subprocess.run(cmd, shell=True, cwd=cwd, env=env, capture_output=True, text=True, timeout=timeout)
    return p.returncode, (p.stdout + p.stderr)


def main():
    mdir = os.path.abspath(sys.argv[1])
    run_tests = "--no-tests" not in sys.argv
    patch = os.path.join(mdir, "patch.diff")
    demo = os.path.join(mdir, "demo.py")
    tmp = tempfile.mkdtemp(prefix="seed-eval-")
    wt = os.path.join(tmp, "wt")
    res = {"mutant": mdir}
    try:
        rc, out = sh("git -C /repo worktree add -q --detach %s HEAD" % wt)
        if rc:
            print("cannot create worktree:", out)
            return 2
        env = dict(os.environ, PYTHONPATH=wt)
        rc, out = sh("/venv/bin/python %s" % demo, cwd=tmp, env=env)
        res["demo_clean"] = "PASS" if rc == 0 else "FAIL(rc=%d)" % rc
        rc, out = sh("git apply %s" % patch, cwd=wt)
        res["applies"] = rc == 0
        if rc:
            res["apply_error"] = out[-300:]
        else:
            rc, out = sh("/venv/bin/python %s" % demo, cwd=tmp, env=env)
            res["demo_mutant"] = "FAIL" if rc != 0 else "PASS(!)"
            if run_tests:
                rc, out = sh("/venv/bin/python -m pytest -q -p no:cacheprovider -n 8 jsonschema 2>&1 | tail -1", cwd=wt)
                res["tests"] = out.strip().splitlines()[-1] if out.strip() else "?"
            fired = {}
            for i in range(1, 21):
                pid = "C%02d" % i
                rc, out = sh("/venv/bin/python %s/sa/check.py %s --repo %s --no-write" % (VERIF, pid, wt), cwd=VERIF)
                if rc == 1:
                    keys = [l.strip()[5:] for l in out.splitlines() if l.strip().startswith("key: ")]
                    fired[pid] = keys[:4]
                elif rc == 2:
                    fired[pid] = ["ANALYSIS-ERROR: " + [l for l in out.splitlines() if "ANALYSIS-ERROR" in l][0][:200]]
            res["checks_fired"] = fired
    finally:
        sh("git -C /repo worktree remove --force %s" % wt)
        sh("rm -rf %s" % tmp)
        sh("git -C /repo worktree prune")
    print(json.dumps(res, indent=1))
    return 0


if __name__ == "__main__":
    sys.exit(main())
