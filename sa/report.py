"""E8: obligations, findings, known-findings file, evidence files."""
import json
import os
import time

from .prog import AnalysisError, PKG

VERIF = os.path.dirname(os.path.dirname(os.path.abspath(__file__)))
KNOWN_FILE = os.path.join(VERIF, "known_findings.json")
EVIDENCE_DIR = os.environ.get("VERIF_EVIDENCE_DIR", os.path.join(VERIF, "evidence"))


def load_known():
    if not os.path.exists(KNOWN_FILE):
        return []
    with open(KNOWN_FILE) as f:
        return json.load(f)["findings"]


class Rule:
    def __init__(self, ctx, rid, title, floor=0):
        self.ctx = ctx
        self.id = rid
        self.title = title
        self.floor = floor
        self.instances = []     # dicts: {site, verdict, detail}
        self.findings = []      # dicts
        self.notes = []

    def ok(self, site, detail=""):
        self.instances.append({"site": site, "verdict": "ok", "detail": detail})

    def fail(self, key, site, msg, **detail):
        """key: position-independent identity of the construct (function + normalised text)."""
        full = "%s|%s" % (self.id, key)
        self.instances.append({"site": site, "verdict": "FAIL", "detail": msg})
        if any(f["key"] == full for f in self.findings):
            return
        self.findings.append({"rule": self.id, "key": full, "site": site, "msg": msg, "detail": detail})

    def pending(self, site, detail=""):
        """An obligation that is not discharged; the finding itself is recorded (deduplicated) by a separate fail()."""
        self.instances.append({"site": site, "verdict": "FAIL", "detail": detail})

    def note(self, site, msg):
        n = {"site": site, "msg": msg}
        if n not in self.notes:
            self.notes.append(n)

    @property
    def n(self):
        return len(self.instances)


class Ctx:
    def __init__(self, pid, tier, prog):
        self.pid = pid
        self.tier = tier
        self.prog = prog
        self.rules = []
        self.assumptions = []
        self.explanation = ""
        self.extra = {}
        self.t0 = time.time()
        self.quiet = False

    def rule(self, rid, title, floor=0):
        r = Rule(self, rid, title, floor)
        self.rules.append(r)
        return r

    def assume(self, text):
        if text not in self.assumptions:
            self.assumptions.append(text)

    # ------------------------------------------------------------------ finish
    def finish(self, write=True, out=print):
        known = [k for k in load_known() if k.get("property") == self.pid]
        known_keys = {k["key"]: k for k in known if k.get("status") == "known"}
        violations, known_hits = [], []
        floor_errors = []
        for r in self.rules:
            # the floor is the count confirmed by reading; a quarter of slack lets sites merge in a refactoring
            # (two descend calls folded into one) without letting a rule pass on next to nothing
            if r.n < max(1, (r.floor * 3) // 4) and r.floor > 0:
                floor_errors.append("%s matched %d instances, floor is %d (%s)" % (r.id, r.n, r.floor, r.title))
            for f in r.findings:
                if f["key"] in known_keys:
                    known_hits.append((f, known_keys[f["key"]]))
                else:
                    violations.append(f)
        if floor_errors and not violations:
            # a rule that matched fewer sites than were confirmed by reading cannot pass vacuously
            raise AnalysisError("; ".join(floor_errors))

        replay_dir = os.path.join(EVIDENCE_DIR, "replay")
        lines = []
        if write:
            os.makedirs(replay_dir, exist_ok=True)
            for fn in os.listdir(replay_dir):
                if fn.startswith(self.pid + "-"):
                    os.unlink(os.path.join(replay_dir, fn))
        for f, k in known_hits:
            lines.append("KNOWN-FINDING: property=%s %s -- %s [%s]" % (self.pid, f["key"], f["msg"], f["site"]))
        for i, f in enumerate(violations, 1):
            path = os.path.join(replay_dir, "%s-%d.json" % (self.pid, i))
            if write:
                with open(path, "w") as fh:
                    json.dump({"property": self.pid, "tier": self.tier, **f}, fh, indent=1, default=str)
            lines.append("VIOLATION property=%s replay=%s" % (self.pid, path))
            lines.append("  %s  %s" % (f["rule"], f["site"]))
            lines.append("  %s" % f["msg"])
            lines.append("  key: %s" % f["key"])
            for dk, dv in (f.get("detail") or {}).items():
                lines.append("  %s: %s" % (dk, dv))
        for r in self.rules:
            for nt in r.notes:
                lines.append("NOTE property=%s %s %s -- %s" % (self.pid, r.id, nt["site"], nt["msg"]))

        obligations = sum(r.n for r in self.rules)
        discharged = sum(1 for r in self.rules for i in r.instances if i["verdict"] == "ok")
        summary = "%s %s: %d rules, %d obligations, %d discharged, %d known findings, %d violations (%.2fs)" % (
            self.pid, self.tier, len(self.rules), obligations, discharged, len(known_hits), len(violations),
            time.time() - self.t0)
        for fe in floor_errors:
            lines.append("  floor: " + fe)
        for r in self.rules:
            lines.append("  rule %-7s %3d instances %s%s" % (
                r.id, r.n, r.title,
                ("  [%d FAIL]" % len(r.findings)) if r.findings else ""))
        lines.append(summary)
        if not self.quiet:
            for ln in lines:
                out(ln)

        if write:
            samples = []
            for r in self.rules:
                for inst in r.instances[:3]:
                    samples.append({"rule": r.id, **inst})
            distinct = len({(r.id, i["site"], i["detail"]) for r in self.rules for i in r.instances})
            ev = {
                "property_id": self.pid,
                "tier": self.tier,
                "seed": int(os.environ.get("VERIF_SEED", "0") or 0),
                "level": "other",
                "coverage": {
                    "explanation": self.explanation or "static analysis of /repo/jsonschema sources (ast); see rules",
                    "technique": "static analysis (ast, CFG path rules, abstract interpretation, effect/provenance analysis); no repository code executed",
                    "obligations": obligations,
                    "discharged": discharged,
                    "evaluations": max(obligations, 1),
                    "distinct_nontrivial": distinct,
                    "rule": "one obligation per (rule, construct in the analysed source); distinct = distinct (rule, site, verdict detail)",
                    "rules": [
                        {"id": r.id, "title": r.title, "instances": r.n, "floor": r.floor,
                         "failed": len(r.findings),
                         "sites": [i["site"] + (" :: " + i["detail"] if i["detail"] else "") + ("" if i["verdict"] == "ok" else " [FAIL]") for i in r.instances][:400]}
                        for r in self.rules
                    ],
                    "known_findings": [f["key"] for f, _ in known_hits],
                    "notes": [n for r in self.rules for n in r.notes],
                    "source_digest": self.prog.digest.hexdigest() if self.prog else None,
                    "modules_analysed": sorted(self.prog.mods) if self.prog else [],
                    "functions_analysed": len(self.prog.funcs) if self.prog else 0,
                    "samples": samples[:40] or [{"note": "no instances"}],
                    "exhaustive": True,
                    **{k: v for k, v in self.extra.items() if isinstance(k, str) and not k.startswith("_")},
                },
                "assumptions": self.assumptions,
                "wall_s": round(time.time() - self.t0, 3),
                "violations": len(violations),
            }
            os.makedirs(EVIDENCE_DIR, exist_ok=True)
            with open(os.path.join(EVIDENCE_DIR, self.pid + ".json"), "w") as fh:
                json.dump(ev, fh, indent=1, default=str)
        return 1 if violations else 0, violations, known_hits


def site(func, node=None, extra=""):
    """Human-readable location: file:line function [construct]."""
    from .prog import norm
    if node is not None and hasattr(node, "lineno"):
        line = node.lineno
    else:
        line = func.node.lineno
    s = "%s/%s.py:%d %s" % (PKG, func.mod.name, line, func.qual)
    if extra:
        s += " " + extra
    return s
