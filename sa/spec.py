"""Specification data (DESIGN.md 4.1 / Appendix B). Data about JSON Schema drafts 3/4/6/7, not about the
repository; rules compare the repository with it."""

D3 = ("$ref additionalItems additionalProperties dependencies disallow divisibleBy enum extends format items "
      "maxItems maxLength maximum minItems minLength minimum pattern patternProperties properties type "
      "uniqueItems").split()
D4 = sorted((set(D3) - {"disallow", "divisibleBy", "extends"}) | set(
    "allOf anyOf maxProperties minProperties multipleOf not oneOf required".split()))
D6 = sorted(set(D4) | set("const contains exclusiveMaximum exclusiveMinimum propertyNames".split()))
D7 = sorted(set(D6) | {"if"})

VOCAB = {"draft3": sorted(D3), "draft4": D4, "draft6": D6, "draft7": D7}
assert [len(VOCAB[d]) for d in ("draft3", "draft4", "draft6", "draft7")] == [21, 26, 31, 32]

ID_KEY = {"draft3": "id", "draft4": "id", "draft6": "$id", "draft7": "$id"}

META_URI = {
    "draft3": "http://json-schema.org/draft-03/schema#",
    "draft4": "http://json-schema.org/draft-04/schema#",
    "draft6": "http://json-schema.org/draft-06/schema#",
    "draft7": "http://json-schema.org/draft-07/schema#",
}

# JSON type a keyword applies to (None = any instance)
APPLIES_TO = {
    "$ref": None, "type": None, "disallow": None, "enum": None, "const": None, "format": None,
    "allOf": None, "anyOf": None, "oneOf": None, "not": None, "extends": None, "if": None,
    "minimum": "number", "maximum": "number", "exclusiveMinimum": "number", "exclusiveMaximum": "number",
    "multipleOf": "number", "divisibleBy": "number",
    "minLength": "string", "maxLength": "string", "pattern": "string",
    "minItems": "array", "maxItems": "array", "uniqueItems": "array", "items": "array",
    "additionalItems": "array", "contains": "array",
    "minProperties": "object", "maxProperties": "object", "required": "object", "properties": "object",
    "patternProperties": "object", "additionalProperties": "object", "propertyNames": "object",
    "dependencies": "object",
}


def siblings(draft, keyword):
    """Sibling names a keyword is defined to consult in that draft."""
    if keyword == "additionalProperties":
        return {"properties", "patternProperties"}
    if keyword == "additionalItems":
        return {"items"}
    if keyword == "if":
        return {"then", "else"}
    if draft in ("draft3", "draft4"):
        if keyword == "minimum":
            return {"exclusiveMinimum"}
        if keyword == "maximum":
            return {"exclusiveMaximum"}
    return set()


# Draft 3 `properties` reads `required` *inside each property's subschema* (not a sibling of the keyword)
CHILD_READS = {("draft3", "properties"): {"required"}}

# message-only reads (value flows only into message formatting): types_msg looks up "name" in a Draft 3
# type-union member.
MESSAGE_ONLY = {"name"}

# R1.3 truth tables: error iff gate and outcome in set; modifier E selects between two sets for drafts 3/4
LT, EQ, GT = "LT", "EQ", "GT"


def relation(draft, keyword):
    """(instance term kind, {E(bool): set of outcomes that are errors}) or None."""
    old = draft in ("draft3", "draft4")
    if keyword == "minimum":
        return ("instance", {False: {LT}, True: {LT, EQ}} if old else {False: {LT}, True: {LT}})
    if keyword == "maximum":
        return ("instance", {False: {GT}, True: {GT, EQ}} if old else {False: {GT}, True: {GT}})
    if not old and keyword == "exclusiveMinimum":
        return ("instance", {False: {LT, EQ}, True: {LT, EQ}})
    if not old and keyword == "exclusiveMaximum":
        return ("instance", {False: {GT, EQ}, True: {GT, EQ}})
    if keyword in ("minLength", "minItems", "minProperties"):
        return ("len", {False: {LT}, True: {LT}})
    if keyword in ("maxLength", "maxItems", "maxProperties"):
        return ("len", {False: {GT}, True: {GT}})
    return None


MODIFIER = {"minimum": "exclusiveMinimum", "maximum": "exclusiveMaximum"}

# value classes for type predicates
CLASSES = ["null", "bool", "int", "intfloat", "float", "str", "list", "dict"]


def type_truth(draft, name):
    t = {
        "null": {"null"}, "boolean": {"bool"}, "string": {"str"}, "array": {"list"}, "object": {"dict"},
        "number": {"int", "intfloat", "float"},
        "integer": {"int"} if draft in ("draft3", "draft4") else {"int", "intfloat"},
    }
    if draft == "draft3":
        t["any"] = set(CLASSES)
    return t.get(name)


def type_names(draft):
    base = ["array", "boolean", "integer", "null", "number", "object", "string"]
    return sorted(base + (["any"] if draft == "draft3" else []))


# Names a draft's metaschema may constrain besides the assertion/applicator vocabulary above: the draft's own annotation and
# identification keywords (taken from the published metaschemas), and the sibling modifiers.  `maxDecimal` is a Draft 2 leftover
# that the bundled Draft 3 file has always carried.
META_EXTRA = {
    "draft3": {"$schema", "id", "title", "description", "default", "required", "exclusiveMinimum", "exclusiveMaximum", "maxDecimal"},
    "draft4": {"$schema", "id", "title", "description", "default", "definitions", "exclusiveMinimum", "exclusiveMaximum"},
    "draft6": {"$schema", "$id", "title", "description", "default", "definitions", "examples"},
    "draft7": {"$schema", "$id", "title", "description", "default", "definitions", "examples", "$comment", "readOnly", "writeOnly",
               "contentEncoding", "contentMediaType", "then", "else"},
}
