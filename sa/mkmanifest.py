#!/venv/bin/python
"""Regenerate /verif/MANIFEST.json from the per-property metadata below and the rule modules present."""
import json
import os
import sys

HERE = os.path.dirname(os.path.abspath(__file__))
VERIF = os.path.dirname(HERE)

META = {
    "C01": dict(
        text="Static necessary conditions of spec agreement: keyword tables equal the draft vocabularies; every type-restricted keyword is gated on its JSON type on every CFG path to an error or descent; scalar assertion keywords are reduced to finite truth tables over (gate, modifier, trichotomy) and compared with the specification's per draft; schema regexes are searched unanchored and verbatim; applicators iterate the whole keyword value; type predicates are evaluated abstractly over the 8 JSON value classes; neither a subschema nor an instance member is ever used as a condition; keyword code reads only the schema object it was called with; no instance member is compared with None (JSON null is a value); no behaviour changes at a size/depth/count fixed in the source (R1.16) and no identity comparison between computed values (R1.17). Not decided: combination semantics on concrete (schema, instance) pairs.",
        note="Trusted: the specification tables in sa/spec.py (Appendix B of DESIGN.md); Python comparison semantics on numbers.",
        technique="static analysis: table/data agreement, CFG must-pass-through, finite truth-table extraction", ref="5/C01"),
    "C02": dict(
        text="Static: $ref short-circuits siblings in the dispatcher; every scope push is popped on every exit incl. exception and generator-close edges (typestate over the CFG); the pushed scope is the resolved URL; joins are against the current top of the scope stack; pointer pipeline order (shared with C14); references written inside a document under a handler's own scheme or a URN resolve against that document (R2.15: fragment-only case fixed in /repo, relative-path case known finding F-19); no size/depth threshold in the resolver or dispatcher (R2.16); eleven spellings of a reference under an http base reach their RFC 3986 targets in the store through the package's own resolve() (R2.19, definitional interpreter). Not decided: verdict equality with the inlined schema on concrete inputs; RFC 3986 join (stdlib).",
        note="Trusted: urllib.parse.urljoin/urldefrag; CPython generator finalisation.",
        technique="static analysis: typestate/pairing on CFG with close edges, reaching definitions, provenance", ref="5/C02"),
    "C03": dict(
        text="Abstract interpretation over a JSON-kind lattice with exception effects: for each (draft, keyword, function), under the value shapes the bundled metaschema admits (computed from the metaschema data) and any JSON instance, no operation can raise anything but the documented exceptions; no message is built with data in the template position of % / format; no applicator asks for the verdict of the same (part, subschema) pair twice in one call (exponential nesting cost); push/pop pairing (a pop that was never pushed empties the scope stack); text conversion (str/repr/%/format/f-string) of a value that may hold an unbounded int is modelled as raising ValueError (CPython's int->str digit limit), with the distinction whether the text is built only when an error is reported; validate()/check_schema totality on schemas alone (R3.8); RefResolutionError is raised only by the resolver (R3.9). Known findings (F-5 URI parsing ValueErrors, F-18 digit limit in messages) are listed individually in known_findings.json.",
        note="Trusted: the operation model (Appendix C) and callee exception model (4.3); regexes compile and $ref values are strings (property's provisos); recursion depth / cyclic $ref not modelled.",
        technique="static analysis: abstract interpretation (kind lattice + exception effects), interprocedural by inlining", ref="5/C03"),
    "C04": dict(
        text="Static: all four entry points derive their verdict only from iter_errors with arguments passed through unchanged; check_schema dominates validator construction in validate(); create_from copies every constructor field (writer/reader table agreement); best_match only selects from its input or contexts. Not decided: which error best_match picks; equality of concrete error lists.",
        note="Trusted: determinism follows from C07/C18 purity (composition).",
        technique="static analysis: call-graph who-calls, dominators, def-use provenance, table agreement", ref="5/C04"),
    "C05": dict(
        text="Static: dispatcher loop has no early exit and yields every error of every keyword function; no keyword function leaves a loop after yielding in it; keyword functions read exactly the sibling names the spec gives them; keyword functions write no shared state; no lazy reader of loop variables is put aside (R5.14); no size threshold (R5.15); nothing keyed by the address id() of an object it does not keep (R5.16). Not decided: multiset equality on concrete inputs.",
        note="Trusted: spec sibling table (Appendix B.2).",
        technique="static analysis: CFG loop-exit rule, schema-key read sets, effect analysis", ref="5/C05"),
    "C06": dict(
        text="Static provenance at each descend call site: path=/schema_path= arguments are the very index/key that selected the instance part / subschema descended into; dispatcher stamps (k, v) of the same table entry; descend prepends to the right deque guarded by `is not None`; absolute = parent ++ relative; json_path walks absolute_path and renders indices and names by different statements; the pointer pipeline behind `$ref` stepping (shared with C14). Not decided: navigation on concrete data.",
        note="Trusted: collections.deque semantics.",
        technique="static analysis: symbolic provenance terms over loop targets (def-use)", ref="5/C06"),
    "C07": dict(
        text="Static: effect/alias analysis shows no validation-reachable function mutates anything reachable from instance/schema/keyword values/documents or any validator/checker field; typestate over the CFG (with exception and generator-close edges) shows every scope push is undone on every exit; the store is written only with a retrieved document, under the requested URI, outside handlers; caches are only called and nothing memoised reads the scope stack; an error iterator created inside an entered scope is consumed inside it; store keys are no coarser than URI-minus-empty-fragment. Not decided: prompt finalisation of abandoned generators (assumed), concrete history equivalence.",
        note="Trusted: CPython reference-counting finalisation of generators; lru_cache does not cache exceptions.",
        technique="static analysis: write-effect/alias analysis over the call graph, typestate on CFG", ref="5/C07"),
    "C08": dict(
        text="Static: const/enum/uniqueItems relate instance-derived and schema-derived values only through the one normaliser (or under a path condition excluding every value the normaliser changes); the normaliser separates booleans from numbers (abstract evaluation over value classes); the relation is applied at every depth; member-wise code never substitutes a JSON value for an absent member nor truncates; const/enum/uniqueItems evaluated on every pair of a 76-value table (incl. dict/list subclasses) against reference JSON equality; no depth/length threshold in the normaliser or the relation (R8.6), no `is` between computed values (R8.7), no sibling keyword narrows the comparison (R8.8). Not decided: numeric equality of Python == (language semantics).",
        note="Trusted: Python == on int/float/str/list/dict.",
        technique="static analysis: taint/provenance of comparison operands, abstract evaluation of the normaliser", ref="5/C08"),
    "C09": dict(
        text="Static: numeric exception-effect analysis shows no finite number can make a numeric keyword raise; comparison keywords compare the raw operands (no lossy conversion); the int/int path of multipleOf uses integer %; every verdict definition depends on both operands; R9.6: multipleOf/divisibleBy on 258 and each bound keyword on 70+ concrete number pairs (integers to 10**400, floats over the whole exponent range, 2**53 neighbours, signed zeros) agree with exact rational arithmetic where the property claims a verdict and raise nowhere (the message of a reported error on an integer of more than 4300 digits is the known finding F-18). Not decided beyond that table: floating-point exactness on the whole exact sub-domain.",
        note="Trusted: Python arbitrary-precision int/float comparison is exact; operation model for OverflowError/ZeroDivisionError.",
        technique="static analysis: abstract interpretation restricted to numeric kinds, operand provenance; definitional interpreter (sa/tokeval.py) on a table of concrete number pairs compared with exact rational arithmetic", ref="5/C09"),
    "C10": dict(
        text="Static: the set of schema keys validation-reachable code can read, per draft, equals vocabulary + declared siblings + id key + $ref; unknown key has no effect in the dispatcher; nothing else iterates a schema object; id key per draft; only the class's id_of reads an id key (R10.12); resolving a fragment is insensitive to annotation/unknown members (R10.9); the CLI reads no id (R10.10).",
        note="Trusted: spec vocabulary tables; messages embedding repr(schema) are message-only.",
        technique="static analysis: constant-key read-set extraction over resolved call graph, CFG edge rule", ref="5/C10"),
    "C11": dict(
        text="Static: check_schema validates against its own class's metaschema with no format checker and re-types the first error only; each bundled metaschema is closed under $ref, uses only defined type names, and every keyword value in it lies in the shape C03 proves safe; ids agree with the class's id key; every member name used in a bundled metaschema is a keyword, an annotation or a declared modifier of its draft (R11.15); RefResolutionError only from the resolver (R11.14). Not decided: accepts exactly what the metaschema allows (needs an independent evaluator).",
        note="Trusted: json module parsing of the bundled files.",
        technique="static analysis: structural wiring check + data closure checks on metaschema files", ref="5/C11"),
    "C12": dict(
        text="Static: format yields only under checker-present; only FormatError is converted and its cause forwarded; check returns early on unknown names, catches exactly `raises`, raises FormatError iff falsy result; conforms wraps check; every registered built-in checker passes non-strings before touching the instance (CFG must-pass-through on all registration branches); the subset constructor walks its `formats` iterable once; the checker object is used as given, a falsy one included (R12.9); nothing but FormatError leaves check and nothing leaves conforms, for any instance (R12.11); each bundled metaschema admits every string as a format name (R12.12).",
        note="Trusted: none beyond Python semantics; is_uri_template note when uritemplate absent.",
        technique="static analysis: CFG must-pass-through, handler-shape rules", ref="5/C12"),
    "C13": dict(
        text="Static: each built-in checker's `raises` covers everything its delegate can raise on arbitrary strings (callee exception model); results on the string path are verdict-truthy; no checker delegates bare to a parser known to accept a strict superset of its grammar; the email verdict is evaluated over the three positions of the first @; regex pre-filters that lead straight to `return False` are compared with the format's grammar as regular languages (NFAs built from the regex syntax trees, product emptiness / inclusion, shortest witness); per-format tables of concrete strings (date, time, ipv4, ipv6, json-pointer, relative-json-pointer, regex, color) evaluated through the checker functions against the format's grammar (R13.8). Not decided: exactness of stdlib grammars.",
        note="Trusted: callee exception/grammar model of ipaddress, datetime, re, idna (4.3).",
        technique="static analysis: exception-effect containment against a callee model", ref="5/C13"),
    "C14": dict(
        text="Static: the decoding pipeline of resolve_fragment as an ordered dataflow: one leading '/' removed, percent-decode before tokenise, tokenise before ~1, ~1 before ~0, integer conversion only for real arrays and canonical indices, every lookup failure becomes RefResolutionError. Not decided: returns exactly the addressed value beyond the pipeline.",
        note="Trusted: str.split/replace/unquote semantics.",
        technique="static analysis: def-use pipeline extraction and order rules", ref="5/C14"),
    "C15": dict(
        text="Static: store consulted before retrieval; retrieval failures wrapped; store written outside __init__ only under cache_remote; URIDict normalises on every accessor; store seeded from the registry; caches per resolver; a handler's document is used as returned, falsy ones included (R15.8); from_schema forwards its arguments and keys the store by the id the class reads (R15.9). Not decided: fetch counts over histories.",
        note="Trusted: lru_cache semantics; MutableMapping mixins.",
        technique="static analysis: dominators, handler coverage, who-may-write, sibling agreement", ref="5/C15"),
    "C16": dict(
        text="Static ownership rules: create/extend copy tables before storing/updating; types= rebinds on the instance; TypeChecker is frozen over a persistent map and its mutators return evolved copies; FormatChecker.__init__ always binds a fresh dict; the four draft checkers are four objects; nobody writes another class's tables; no keyword function decides by validating against a schema literal naming another keyword, which would couple the two table entries under extend() (R16.13; Draft 3 disallow/type listed with its reason).",
        note="Trusted: attrs frozen/evolve, pyrsistent pmap purity.",
        technique="static analysis: aliasing/ownership (fresh-container) rules, who-may-write", ref="5/C16"),
    "C17": dict(
        text="Static: ErrorTree construction cannot reach a raising lookup on user data; each error is filed under its own keyword at the node reached by its own path; accessors agree on one container; total_errors depends on own errors and every child; lookup of an error-free member subscripts only a container instance, never a recorded property name (F-17, fixed). Not decided: concrete counts.",
        note="Trusted: defaultdict semantics.",
        technique="static analysis: call-graph reachability to raising subscript, def-use dependence", ref="5/C17"),
    "C18": dict(
        text="Static: inventory of module/class-level mutable state; none of it is written by any function reachable from a validation entry point; all resolver state is created per instance; a validator without resolver builds its own; no memoisation outside the resolver instance.",
        note="Trusted: thread safety of re's cache and lru_cache internals.",
        technique="static analysis: shared-state inventory + write-effect reachability", ref="5/C18"),
    "C19": dict(
        text="Static on cli.run: schema failures return non-zero before any instance; instance loop has no early exit; exit-code accumulator is monotone; _validate_instance reports once per error and success only when none; stream discipline; every return is the accumulator or a non-zero constant; every parse failure becomes a diagnostic; main() and `python -m jsonschema` end with run()'s status (R19.11); the class named with --validator is the one used (R19.12).",
        note="Trusted: json.load exception model.",
        technique="static analysis: CFG dominators/loop exits, abstract interpretation over {zero, nonzero}, handler coverage", ref="5/C19"),
    "C20": dict(
        text="Static: validator_for reads $schema through the normalising registry, returns default for boolean/missing, warns and returns latest for unknown; _LATEST_VERSION is the highest draft; validate() and CLI call it only when no class is given; registration only adds entries; each draft's metaschema id lives under the key its class reads; every package-side RefResolver.from_schema forwards the class's id_of.",
        note="Trusted: urlsplit().geturl() normalisation.",
        technique="static analysis: CFG edge rules, who-may-write registries, data agreement", ref="5/C20"),
}


TOKEVAL = {
    "C01": "applicator and scalar keyword truth tables over sub-verdict oracles / abstract operands; type predicates over value classes",
    "C02": "dispatcher (root-schema scope included) and resolver (resolve, push/pop, join, handler selection) evaluated on the package's own classes with recording stubs; pointer table through resolve()",
    "C04": "validate/is_valid/create_from/best_match/module validate evaluated on the package's own classes",
    "C05": "applicator tables (all sub-errors forwarded once); dispatcher evaluated with recording keyword functions",
    "C06": "applicator tables (paths), error classes (absolute paths, json_path), dispatcher stamping and descend evaluated",
    "C07": "URIDict evaluated as an object",
    "C08": "normaliser evaluated on true/false, scalars and all array/object nestings to depth 3",
    "C10": "dispatcher evaluated: $ref alone, in any key order; resolve_fragment on a document with and without annotation/unknown members carrying ids",
    "C11": "type predicates over value classes",
    "C12": "FormatChecker.check/conforms/registration evaluated with recording stub checkers",
    "C13": "-  (regex automata in sa/relang.py instead)",
    "C14": "resolve_fragment, and resolve('#<fragment>') on a resolver whose own document is the table's, against an RFC 6901 reference on 76 fragments (escapes at every depth, empty keys, arrays of 3 and 12, 5000-digit index tokens and member names)",
    "C15": "RefResolver retrieval, caching and construction evaluated with recording handlers; URIDict",
    "C16": "create/extend/validates evaluated (copies, forwarding, registration, a parent without $ref and a child with it)",
    "C17": "ErrorTree evaluated on the package's own error objects: filing, accessors, totals, six arrival orders, errors left untouched",
    "C18": "resolver construction, per-validator resolver and check_schema (fresh metaschema validator per call) evaluated",
    "C19": "cli.run evaluated on 133 scenarios with an in-memory open (odd path spellings included) and stub validator classes; parse_args with a stub parser; the module's own argparse parser built inside the interpreter and fed 14 command lines",
    "C20": "validator_for, module validate and registration evaluated with stub classes",
}


def main():
    for pid, what in TOKEVAL.items():
        if not what.startswith("-") and pid in META:
            META[pid]["technique"] += "; abstract evaluation of the functions' AST by a definitional interpreter over scenario tables (sa/tokeval.py): " + what
    checks = []
    na = []
    for pid in sorted(META):
        m = META[pid]
        if os.path.exists(os.path.join(HERE, "rules", pid.lower() + ".py")):
            checks.append({
                "property_id": pid,
                "quick_cmd": "/venv/bin/python sa/check.py %s --tier quick" % pid,
                "thorough_cmd": "/venv/bin/python sa/check.py %s --tier thorough" % pid,
                "evidence_file": "evidence/%s.json" % pid,
                "replay_cmd_template": "cat {path}",
                "engine": "sa",
                "level_claimed": {"category": "other", "text": m["text"], "design_ref": "DESIGN.md section " + m["ref"]},
                "level_note": m["note"],
                "technique": m["technique"],
            })
        else:
            na.append({"property_id": pid, "reason": "checker not built yet in this session (design in DESIGN.md section %s); no verdict is claimed" % m["ref"]})
    man = {
        "version": 1,
        "setup_cmd": "/venv/bin/python -c \"import ast, json, sys; sys.exit(0)\"",
        "hooks": {
            "guard": "JULIAN_JSONSCHEMA_VERIF",
            "enable": "none needed: the checks read /repo/jsonschema sources with ast; no instrumentation exists",
            "baseline_off_cmd": "cd /repo && /venv/bin/python -m pytest -ra -q -p no:cacheprovider --timeout=900 --continue-on-collection-errors",
            "source_commits": [],
            "add_only": True,
        },
        "engines": [{
            "name": "sa",
            "path": "sa/",
            "serves_properties": [c["property_id"] for c in checks],
            "kind_free_text": "repository-specific static analysis in pure Python (ast): loader/name resolver with source normalisations, CFG with exception and generator-close edges, call graph, write-effect/alias analysis, provenance, kind abstract interpreter, and a definitional interpreter (sa/tokeval.py) that evaluates the AST of package functions and classes over tables of abstract scenarios (opaque tokens + verdict oracles, ordered abstract scalars, stub collaborators; generators lazy, closed when dropped); nothing from /repo is imported or executed by Python",
        }],
        "checks": checks,
        "notes": "Static analysis only. Exit 0 ok / 1 VIOLATION / 2 ANALYSIS-ERROR. Known findings in known_findings.json.",
        "not_applicable": na,
    }
    with open(os.path.join(VERIF, "MANIFEST.json"), "w") as f:
        json.dump(man, f, indent=1)
    print("MANIFEST.json: %d checks, %d not_applicable" % (len(checks), len(na)))


if __name__ == "__main__":
    main()
