"""E2 for _format.py: which functions are registered as format checkers, under which
names, with which `raises`, and under which optional-import condition."""
import ast
import importlib.util

from .prog import Func, AnalysisError, norm, const_str, DRAFTS


class FormatEntry:
    def __init__(self, func, names, raises, requires, deco):
        self.func = func          # Func
        self.names = names        # {draft: format name}
        self.raises = raises      # ast.expr or None (== ())
        self.requires = requires  # list of ("need"|"absent"|"any", modname or [modnames])
        self.deco = deco          # ast.Call

    @property
    def cls_name(self):
        for d in ("draft7", "draft6", "draft4", "draft3"):
            if self.names.get(d):
                return self.names[d]
        return None

    @property
    def present(self):
        for kind, m in self.requires:
            if kind == "need" and not _has(m):
                return False
            if kind == "absent" and _has(m):
                return False
            if kind == "any" and not any(_has(x) for x in m):
                return False
            if kind == "alt" and not any(FormatEntry(None, {}, None, list(c), None).present for c in m):
                return False
        return True

    def raises_names(self):
        if self.raises is None:
            return []
        e = self.raises
        elts = e.elts if isinstance(e, ast.Tuple) else [e]
        return [norm(x) for x in elts]


_spec_cache = {}


def _has(modname):
    top = modname.split(".")[0]
    if top not in _spec_cache:
        try:
            _spec_cache[top] = importlib.util.find_spec(top) is not None
        except (ImportError, ValueError):
            _spec_cache[top] = False
    return _spec_cache[top]


def _imports_in(stmts):
    mods, names = [], {}
    for st in stmts:
        if isinstance(st, ast.Import):
            for a in st.names:
                mods.append(a.name)
                names[(a.asname or a.name).split(".")[0]] = a.name
        elif isinstance(st, ast.ImportFrom):
            mods.append(st.module)
            for a in st.names:
                names[a.asname or a.name] = st.module
    return mods, names


def _is_import_error(h):
    if h.type is None:
        return True
    return "ImportError" in norm(h.type) or "ModuleNotFoundError" in norm(h.type)


def format_registry(prog):
    mod = prog.mod("_format")
    deco_func = prog.resolve_name(mod, "_checks_drafts")
    if not isinstance(deco_func, Func):
        deco_func = prog.func("_format._checks_drafts")     # found by role when renamed (see Prog._by_role)
    dparams = deco_func.params
    entries = []
    name_sources = {}   # name -> [modules that can bind it through a guarded import]

    flags = {}          # module-level name -> [(constant value, ctx)]: `_uri_library = "rfc3987"` inside an import branch

    def flag_test(t):
        """(flag name, predicate on the constant) for `NAME == c`, `NAME != c`, `NAME is [not] None`, `NAME in (c, ...)`, `not NAME`, `NAME`."""
        if isinstance(t, ast.Name) and t.id in flags and t.id not in name_sources:
            return t.id, bool
        if isinstance(t, ast.UnaryOp) and isinstance(t.op, ast.Not) and isinstance(t.operand, ast.Name) and t.operand.id in flags and t.operand.id not in name_sources:
            return t.operand.id, (lambda v: not v)
        if isinstance(t, ast.Compare) and len(t.ops) == 1 and isinstance(t.left, ast.Name) and t.left.id in flags:
            op, rhs = t.ops[0], t.comparators[0]
            if isinstance(rhs, ast.Constant) and isinstance(op, (ast.Eq, ast.Is)):
                return t.left.id, (lambda v, c=rhs.value: v == c and type(v) is type(c))
            if isinstance(rhs, ast.Constant) and isinstance(op, (ast.NotEq, ast.IsNot)):
                return t.left.id, (lambda v, c=rhs.value: not (v == c and type(v) is type(c)))
            if isinstance(rhs, (ast.Tuple, ast.List, ast.Set)) and all(isinstance(x, ast.Constant) for x in rhs.elts) and isinstance(op, (ast.In, ast.NotIn)):
                vals = [x.value for x in rhs.elts]
                return t.left.id, ((lambda v: v in vals) if isinstance(op, ast.In) else (lambda v: v not in vals))
        return None

    def walk(body, ctx):
        for st in body:
            if isinstance(st, ast.Assign) and len(st.targets) == 1 and isinstance(st.targets[0], ast.Name) and isinstance(st.value, ast.Constant) \
                    and (st.value.value is None or isinstance(st.value.value, (str, bool, int))):
                flags.setdefault(st.targets[0].id, []).append((st.value.value, list(ctx)))
                continue
            if isinstance(st, ast.If) and flag_test(st.test) is not None:
                nm, pred = flag_test(st.test)
                yes = [c for v, c in flags[nm] if pred(v)]
                no = [c for v, c in flags[nm] if not pred(v)]
                walk(st.body, ctx + [("alt", yes)])
                walk(st.orelse, ctx + [("alt", no)])
                continue
            if isinstance(st, ast.Try) and st.handlers and all(_is_import_error(h) for h in st.handlers):
                mods, names = _imports_in(st.body)
                for nm, m in names.items():
                    name_sources.setdefault(nm, []).append(m)
                need = [("need", m) for m in mods]
                # non-import statements in the try body
                walk([s for s in st.body if not isinstance(s, (ast.Import, ast.ImportFrom))], ctx + need)
                for h in st.handlers:
                    walk(h.body, ctx + ([("absent", mods[0])] if mods else []))
                walk(st.orelse, ctx + need)
                walk(st.finalbody, ctx)
            elif isinstance(st, ast.If):
                t = st.test
                if isinstance(t, ast.Name) and t.id in name_sources:
                    walk(st.body, ctx + [("any", list(name_sources[t.id]))])
                    walk(st.orelse, ctx)
                elif isinstance(t, ast.Call) and norm(t.func) == "hasattr":
                    walk(st.body, ctx)
                    walk(st.orelse, ctx)
                else:
                    walk(st.body, ctx + [("cond", norm(t))])
                    walk(st.orelse, ctx + [("cond", "not " + norm(t))])
            elif isinstance(st, (ast.FunctionDef,)):
                f = prog.funcs.get("_format." + st.name)
                # several defs may share a name (is_uri in two branches): locate by node identity
                for cand in prog.funcs.values():
                    if cand.node is st:
                        f = cand
                if f is None or f.node is not st:
                    f = Func(mod, "_format." + st.name + "@%d" % st.lineno, st)
                for d in st.decorator_list:
                    if isinstance(d, ast.Call) and prog.resolve_expr(mod, d.func) is deco_func:
                        args = {}
                        for i, a in enumerate(d.args):
                            args[dparams[i]] = a
                        for kw in d.keywords:
                            if kw.arg is None:
                                # **_IPV4_FORMAT_NAMES: a module-level dict literal of constant names, bound once
                                tbl = kw.value
                                if isinstance(tbl, ast.Name):
                                    binds = mod.bindings.get(tbl.id) or []
                                    tbl = binds[0][0] if len(binds) == 1 else None
                                pairs = None
                                if isinstance(tbl, ast.Dict) and all(isinstance(k, ast.Constant) and isinstance(k.value, str) for k in tbl.keys):
                                    pairs = [(k.value, v) for k, v in zip(tbl.keys, tbl.values)]
                                elif isinstance(tbl, ast.Call) and norm(tbl.func) == "dict" and not tbl.args and all(k.arg for k in tbl.keywords):
                                    pairs = [(k.arg, k.value) for k in tbl.keywords]
                                if pairs is None:
                                    raise AnalysisError("format names passed as ** of something that is not a literal table: %s" % norm(d))
                                for k, v in pairs:
                                    args[k] = v
                                continue
                            args[kw.arg] = kw.value
                        name = const_str(args["name"]) if "name" in args else None
                        names = {}
                        for dr in DRAFTS:
                            v = const_str(args[dr]) if dr in args else None
                            v = v or name
                            if v:
                                names[dr] = v
                        for k, v in args.items():
                            if k != "raises" and const_str(v) is None:
                                raise AnalysisError("non-constant format name at %s" % norm(d))
                        rz = args.get("raises")
                        if isinstance(rz, ast.Name):
                            # raises=_REGEX_ERRORS: a module-level tuple of exception classes, bound once
                            binds = mod.bindings.get(rz.id) or []
                            if len(binds) == 1 and isinstance(binds[0][0], (ast.Tuple, ast.Name, ast.Attribute)) and not isinstance(binds[0][0], ast.Name):
                                rz = binds[0][0]
                        entries.append(FormatEntry(f, names, rz, list(ctx), d))
                    elif isinstance(d, ast.Call) and isinstance(d.func, ast.Attribute) and d.func.attr in ("checks", "cls_checks"):
                        nm = const_str(d.args[0]) if d.args else None
                        raises = d.args[1] if len(d.args) > 1 else None
                        for kw in d.keywords:
                            if kw.arg == "raises":
                                raises = kw.value
                            if kw.arg == "format":
                                nm = const_str(kw.value)
                        entries.append(FormatEntry(f, {"direct": nm}, raises, list(ctx), d))
    walk(mod.tree.body, [])
    return entries


def all_format_defs(prog):
    """Every top-level-ish function definition in _format.py named is_* (registered or not)."""
    return [f for f in prog.funcs.values() if f.mod.name == "_format" and f.outer is None and f.cls is None]
